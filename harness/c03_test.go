//go:build verif

package harness

import (
	"bytes"
	"crypto/sha256"
	"encoding/hex"
	"fmt"
	"math/rand"
	"runtime/debug"
	"sort"
	"strings"
	"testing"

	"cosmossdk.io/core/appmodule"
	coreheader "cosmossdk.io/core/header"
	sdkmath "cosmossdk.io/math"
	"cosmossdk.io/x/feegrant"
	abci "github.com/cometbft/cometbft/abci/types"
	codectypes "github.com/cosmos/cosmos-sdk/codec/types"
	sdk "github.com/cosmos/cosmos-sdk/types"
	"github.com/cosmos/cosmos-sdk/x/authz"
	bankkeeper "github.com/cosmos/cosmos-sdk/x/bank/keeper"
	banktypes "github.com/cosmos/cosmos-sdk/x/bank/types"
	ethcommon "github.com/ethereum/go-ethereum/common"
	ethcrypto "github.com/ethereum/go-ethereum/crypto"
	consensustypes "github.com/palomachain/paloma/v2/x/consensus/types"
	skywaybindings "github.com/palomachain/paloma/v2/x/skyway/bindings"
	skywaybindingstypes "github.com/palomachain/paloma/v2/x/skyway/bindings/types"
	skywaykeeper "github.com/palomachain/paloma/v2/x/skyway/keeper"
	skywaytypes "github.com/palomachain/paloma/v2/x/skyway/types"
	tfbindings "github.com/palomachain/paloma/v2/x/tokenfactory/bindings"
	tfbindingstypes "github.com/palomachain/paloma/v2/x/tokenfactory/bindings/types"
	tokenfactorytypes "github.com/palomachain/paloma/v2/x/tokenfactory/types"
	treasurykeeper "github.com/palomachain/paloma/v2/x/treasury/keeper"
	treasurytypes "github.com/palomachain/paloma/v2/x/treasury/types"
	valsettypes "github.com/palomachain/paloma/v2/x/valset/types"
)

// C03: state kept on behalf of a principal changes only through a transaction
// authorised by that principal (signature, fee grant, external-chain signature
// for batch confirmations) or by the governance authority.
//
// For every message type of the zoo and every identity-bearing field the test
// delivers REAL transactions through the full app (ante chain + router +
// handlers) in these scenarios (A = attacker/actor, B = victim):
//   ok   A signs for itself (baseline; B is a bystander)
//   a    signed by A, metadata.creator = B, no grant      -> must be rejected
//   b    same with a fee grant B -> A                      -> A acts for B
//   c1   signed by A, creator A, ONE identity field := B   -> nothing of B's may change
//   c2   message built for B (every field that ties it to its actor = B: orchestrator, eth signer,
//        validator address ...; content valid for B), but creator/signer = A
//   d    governance-only message signed by a user (d2: Authority field := A,
//        d3: creator := governance address)               -> rejected, no state change
//   e    creator = B, metadata.signers = [B], tx signed by A -> signature check rejects
//   gov  governance-only message delivered as executed proposal (router, no ante)
//   gov2 same with a foreign metadata.creator (paloma/skyway UpdateParams ignore it)
//   sig  bad-signature evidence against the sacrificial validator, sent by a user
//   m…   MULTI-message transactions (op `mtx`): 2-3 messages of the same / different types in one
//        tx signed by S (m2…: by two signers S and T), creators drawn from S itself, G (granted
//        S an allowance), B (granted nothing), T; every order incl. the attack orders [G, B] and
//        [B, G].  The decorator must check every message on its own: a grant from G is no
//        authorisation for B's message; the whole tx must be rejected and nothing of B's change.
//        Variant mz…: the signers a message DECLARES (metadata.signers) differ from the accounts
//        that sign the transaction: some messages declare NO signer at all (the SDK then demands
//        no signature for them; the rest of the transaction supplies its signatures), preferably
//        of the request types without a ValidateBasic, which reach the decorator in that shape.
//        The monitors judge by the transaction's REAL signers (the keys that signed it).
//   e0   single message with creator = B (or A) and an EMPTY metadata.signers, tx signed by A
//   lnh  light-node histories (c03_lightnode_test.go): licences bought / sold, registered,
//        authenticated, legacy grantees, and the sender-ignoring migration run by strangers at
//        any point; monitor light-node-cross-principal-write after every step.
//   dnh / cbh  directed multi-step histories (see "Directed multi-step histories" below): a denom
//        handed over and then used by former admins / the account in its name / the new admin,
//        also through the wasm bindings; batch confirmations with sender, orchestrator, eth signer,
//        signing key and signed item chosen independently.  Monitors denom-cross-principal-write
//        and confirm-not-validators-own-signature (the latter after EVERY delivery of the test).
//   xdh  (c03_dispatch_test.go) MsgExec wrappers holding SEVERAL messages (a foreign creator first / middle /
//        last among the actor's own), dispatched by a contract or sent in a transaction, in SEQUENCES
//        through the application's one wasm router value (honest dispatches before a forged one).
// The monitor is a diff of all store entries "attributed to B": every entry of
// the paloma module stores + feegrant + bank + acc whose key or value contains
// B's address bytes, one of its bech32 renderings (account, valoper) or its eth
// address.  The Lean driver evaluates the authorisation model on the same facts.

const c03Authority = 99

var c03Stores = append(append([]string{}, ZooPalomaStores...), "bank", "acc", "params")

// c03Allow: (type, field) pairs through which A may legitimately create state
// that mentions B (independent of the Lean role table; the diff checks that both agree).
var c03Allow = map[string]string{
	"paloma.AddLightNodeClientLicense/ClientAddress":        "licence for a not-yet-existing account, paid by the creator",
	"paloma.UpdateParams/Params.GasExemptAddresses":         "governance names gas-exempt accounts",
	"skyway.ConfirmBatch/Orchestrator":                      "backed by the validator's own eth signature over the batch checkpoint",
	"skyway.ConfirmBatch/EthSigner":                         "backed by the validator's own eth signature over the batch checkpoint",
	"skyway.LightNodeSaleClaim/ClientAddress":               "beneficiary of an attested light-node sale",
	"skyway.SendToPalomaClaim/PalomaReceiver":               "recipient of an attested deposit",
	"skyway.SendToRemote/EthDest":                           "external recipient of the creator's own funds",
	"skyway.SubmitBadSignatureEvidence/Signature":           "the validator's own eth signature over a checkpoint that never existed",
	"tokenfactory.ChangeAdmin/NewAdmin":                     "the admin hands its own denom over",
	"scheduler.CreateJob/Job.Permissions.Whitelist.Address": "runner list of the creator's own job",
	"scheduler.CreateJob/Job.Permissions.Blacklist.Address": "runner list of the creator's own job",
}

// c03FreeText: identity-looking fields the handler stores verbatim inside the CREATOR's own new
// record without interpreting them.
var c03FreeText = map[string]string{
	"skyway.EstimateBatchGas/EthSigner":                          "stored inside the creator's estimate, only format-checked",
	"skyway.SendToPalomaClaim/EthereumSender":                    "part of the attested event",
	"skyway.SubmitBadSignatureEvidence/Sender":                   "deprecated, ignored",
	"consensus.AddMessageEstimates/Estimates.EstimatedByAddress": "carried, never read",
	"valset.AddExternalChainInfoForValidator/ChainInfos.Address": "the creator's claimed account; a collision with another validator's is rejected",
	"valset.AddExternalChainInfoForValidator/ChainInfos.Pubkey":  "the creator's claimed account; a collision with another validator's is rejected",
}

var c03Open = map[string]string{
	"evm.RemoveSmartContractDeployment": "anybody may delete an in-flight compass deployment record",
	"paloma.SetLegacyLightNodeClients":  "idempotent migration, ignores the sender",
}

type c03Principal struct {
	acc *FAAccount
	pid int
}

func (p c03Principal) render(kind string) string {
	switch kind {
	case "val":
		return p.acc.ValAddr().String()
	case "eth":
		return zooEthHex(p.acc)
	}
	return p.acc.Addr.String()
}

// needles: byte patterns that attribute a store entry to the principal; hexNeedles
// (lower case hex of the address / eth address) are matched case-insensitively.
func (p c03Principal) needles() (raw [][]byte, hexNeedles [][]byte) {
	raw = [][]byte{p.acc.Addr.Bytes(), []byte(p.acc.Addr.String()), []byte(p.acc.ValAddr().String())}
	hexNeedles = [][]byte{[]byte(hex.EncodeToString(p.acc.Addr.Bytes()))}
	if p.acc.EthPriv != nil {
		raw = append(raw, p.acc.EthAddr.Bytes())
		hexNeedles = append(hexNeedles, []byte(hex.EncodeToString(p.acc.EthAddr.Bytes())))
	}
	return raw, hexNeedles
}

// --- protobuf-shape-aware attribution -------------------------------------------------
//
// An entry whose KEY contains one of B's renderings is B's as a whole.  An entry that only
// mentions B inside its value may be a shared object (a queued consensus message carries the
// signatures, estimates and evidence of many validators; an attestation the votes of many):
// there, what is attributed to B is the smallest protobuf sub-message around each mention (the
// SignData / GasEstimate / Evidence / snapshot-validator record), or just the mention itself
// when it is a leaf of the top-level message (a vote) or the value is not protobuf.

type c03Field struct{ ps, pe int } // payload range of a length-delimited field

func c03ParseFields(buf []byte) ([]c03Field, bool) {
	var out []c03Field
	i := 0
	varint := func() (uint64, bool) {
		var v uint64
		for sh := uint(0); sh < 64; sh += 7 {
			if i >= len(buf) {
				return 0, false
			}
			b := buf[i]
			i++
			v |= uint64(b&0x7f) << sh
			if b < 0x80 {
				return v, true
			}
		}
		return 0, false
	}
	if len(buf) == 0 {
		return nil, false
	}
	for i < len(buf) {
		tag, ok := varint()
		if !ok || tag>>3 == 0 {
			return nil, false
		}
		switch tag & 7 {
		case 0:
			if _, ok := varint(); !ok {
				return nil, false
			}
		case 1:
			i += 8
		case 5:
			i += 4
		case 2:
			n, ok := varint()
			if !ok || n > uint64(len(buf)-i) {
				return nil, false
			}
			out = append(out, c03Field{i, i + int(n)})
			i += int(n)
		default:
			return nil, false
		}
		if i > len(buf) {
			return nil, false
		}
	}
	return out, true
}

// c03Lower lowers ASCII letters only (bytes.ToLower re-encodes invalid UTF-8 and changes lengths).
func c03Lower(b []byte) []byte {
	out := make([]byte, len(b))
	for i, c := range b {
		if c >= 'A' && c <= 'Z' {
			c += 'a' - 'A'
		}
		out[i] = c
	}
	return out
}

func c03Printable(b []byte) bool {
	for _, c := range b {
		if c < 0x20 || c > 0x7e {
			return false
		}
	}
	return true
}

// c03Enclose returns the range of value attributed to the mention [s,e).
func c03Enclose(value []byte, s, e int) (int, int) {
	lo, hi := 0, len(value)
	root := true
	for {
		fields, ok := c03ParseFields(value[lo:hi])
		if !ok {
			if root {
				return s, e // not protobuf: the mention itself
			}
			return lo, hi
		}
		var child *c03Field
		for k := range fields {
			f := fields[k]
			if lo+f.ps <= s && e <= lo+f.pe {
				child = &fields[k]
				break
			}
		}
		if child == nil {
			if root {
				return s, e
			}
			return lo, hi
		}
		cs, ce := lo+child.ps, lo+child.pe
		_, childIsMsg := c03ParseFields(value[cs:ce])
		if (cs == s && ce == e) || !childIsMsg || c03Printable(value[cs:ce]) {
			// the mention sits in a leaf of the current message
			if root {
				return cs, ce
			}
			return lo, hi
		}
		lo, hi, root = cs, ce, false
	}
}

func c03Units(key, value []byte, raw, hexNeedles [][]byte) []string {
	for _, n := range raw {
		if bytes.Contains(key, n) {
			h := sha256.Sum256(value)
			return []string{"K" + hex.EncodeToString(h[:8])}
		}
	}
	lk := c03Lower(key)
	for _, n := range hexNeedles {
		if bytes.Contains(lk, n) {
			h := sha256.Sum256(value)
			return []string{"K" + hex.EncodeToString(h[:8])}
		}
	}
	seen := map[[2]int]bool{}
	var units []string
	scan := func(hay []byte, n []byte) {
		for off := 0; ; {
			i := bytes.Index(hay[off:], n)
			if i < 0 {
				return
			}
			s, e := off+i, off+i+len(n)
			off = s + 1
			lo, hi := c03Enclose(value, s, e)
			if seen[[2]int{lo, hi}] {
				continue
			}
			seen[[2]int{lo, hi}] = true
			h := sha256.Sum256(value[lo:hi])
			units = append(units, "m"+hex.EncodeToString(h[:8]))
		}
	}
	for _, n := range raw {
		scan(value, n)
	}
	if len(hexNeedles) > 0 {
		lv := c03Lower(value)
		for _, n := range hexNeedles {
			scan(lv, n)
		}
	}
	sort.Strings(units)
	return units
}

func c03DumpCtx(fa *FullApp, ctx sdk.Context, store string) [][2][]byte {
	k := fa.kvKeys()[store]
	if k == nil {
		return nil
	}
	it := ctx.KVStore(k).Iterator(nil, nil)
	defer it.Close()
	var out [][2][]byte
	for ; it.Valid(); it.Next() {
		out = append(out, [2][]byte{append([]byte(nil), it.Key()...), append([]byte(nil), it.Value()...)})
	}
	return out
}

// c03Attributed returns, for every store entry attributed to p (nil acc = the governance
// authority: every entry of the paloma stores and params is a governance-controlled setting or
// state the settings protect; there the unit is the store digest), the digests of p's units.
func c03Attributed(w *ZooWorld, ctx sdk.Context, p c03Principal) map[string][]string {
	out := map[string][]string{}
	if p.acc == nil {
		for _, st := range append(append([]string{}, ZooPalomaStores...), "params") {
			h := sha256.New()
			for _, kv := range c03DumpCtx(w.FA, ctx, st) {
				fmt.Fprintf(h, "%d:%d:", len(kv[0]), len(kv[1]))
				h.Write(kv[0])
				h.Write(kv[1])
			}
			out[st] = []string{hex.EncodeToString(h.Sum(nil)[:8])}
		}
		return out
	}
	raw, hexNeedles := p.needles()
	cdc := w.FA.App().AppCodec()
	for _, st := range c03Stores {
		for _, kv := range c03DumpCtx(w.FA, ctx, st) {
			var u []string
			switch {
			case st == "valset" && bytes.HasPrefix(kv[0], []byte("snapshot")):
				// derived aggregate: a valset snapshot lists every validator; it is rebuilt by the
				// end blocker from staking + the per-validator records, which ARE watched
				continue
			case st == "palomaconsensus":
				var qm consensustypes.QueuedSignedMessageI
				if err := cdc.UnmarshalInterface(kv[1], &qm); err == nil {
					// a queued message is a shared object: what belongs to a validator are its
					// signature, gas estimate, evidence, public-access / error data records (the
					// payload with its system-chosen assignee and valset contents is not)
					u = c03QueueUnits(qm, p.acc.Addr.Bytes())
					break
				}
				u = c03Units(kv[0], kv[1], raw, hexNeedles)
			default:
				u = c03Units(kv[0], kv[1], raw, hexNeedles)
			}
			if len(u) > 0 {
				out[st+"/"+hex.EncodeToString(kv[0])] = u
			}
		}
	}
	return out
}

func c03QueueUnits(qm consensustypes.QueuedSignedMessageI, val []byte) []string {
	var units []string
	add := func(tag string, m interface{ Marshal() ([]byte, error) }) {
		bz, err := m.Marshal()
		if err != nil {
			bz = []byte(err.Error())
		}
		h := sha256.Sum256(bz)
		units = append(units, "q"+tag+hex.EncodeToString(h[:8]))
	}
	for _, sd := range qm.GetSignData() {
		if sd != nil && bytes.Equal(sd.ValAddress, val) {
			add("sig", sd)
		}
	}
	for _, ge := range qm.GetGasEstimates() {
		if ge != nil && bytes.Equal(ge.ValAddress, val) {
			add("est", ge)
		}
	}
	for _, ev := range qm.GetEvidence() {
		if ev != nil && bytes.Equal(ev.ValAddress, val) {
			add("evi", ev)
		}
	}
	if pad := qm.GetPublicAccessData(); pad != nil && bytes.Equal(pad.ValAddress, val) {
		add("pad", pad)
	}
	if ed := qm.GetErrorData(); ed != nil && bytes.Equal(ed.ValAddress, val) {
		add("err", ed)
	}
	sort.Strings(units)
	return units
}

// c03EmptyBlock runs the begin and end blockers of the paloma modules (and feegrant) for the
// next height on a throw-away branch: what the block itself would do without any transaction.
func c03EmptyBlock(w *ZooWorld) sdk.Context {
	fa := w.FA
	ctx := fa.CtxCached()
	hdr := ctx.BlockHeader()
	hdr.Height++
	hdr.Time = hdr.Time.Add(fa.BlockStep)
	ctx = ctx.WithBlockHeader(hdr).WithHeaderInfo(coreheader.Info{Height: hdr.Height, Time: hdr.Time, ChainID: hdr.ChainID})
	mine := map[string]bool{"feegrant": true, "palomaconsensus": true, "evm": true, "paloma": true, "scheduler": true, "skyway": true,
		"tokenfactory": true, "treasury": true, "valset": true, "metrix": true}
	mm := fa.App().ModuleManager
	for _, name := range mm.OrderBeginBlockers {
		if m, ok := mm.Modules[name].(appmodule.HasBeginBlocker); ok && mine[name] {
			faRecover(func() { _ = m.BeginBlock(ctx) })
		}
	}
	for _, name := range mm.OrderEndBlockers {
		if m, ok := mm.Modules[name].(appmodule.HasEndBlocker); ok && mine[name] {
			faRecover(func() { _ = m.EndBlock(ctx) })
		}
	}
	return ctx
}

// c03Change classifies the change of the victim's attributed state: 0 none; 1 only new mentions
// of the victim inside entries that are not keyed by it; 2 an existing unit was altered or
// removed, or a new entry keyed by the victim / a new record tagged with it appeared.
// Entries that end up exactly as an empty block would leave them are the block's doing.
func c03Change(before, after, noise map[string][]string) (int, []string) {
	lvl, desc, _ := c03ChangeAltered(before, after, noise)
	return lvl, desc
}

// c03ChangeAltered is c03Change plus: was a unit that existed before altered or removed?
func c03ChangeAltered(before, after, noise map[string][]string) (int, []string, bool) {
	keys := map[string]bool{}
	for k := range before {
		keys[k] = true
	}
	for k := range after {
		keys[k] = true
	}
	lvl := 0
	altered := false
	var desc []string
	for k := range keys {
		if strings.Join(after[k], ",") == strings.Join(noise[k], ",") {
			continue
		}
		b := map[string]int{}
		for _, u := range before[k] {
			b[u]++
		}
		added, addedOwned := 0, 0
		for _, u := range after[k] {
			if b[u] > 0 {
				b[u]--
			} else {
				added++
				if u[0] == 'K' || u[0] == 'q' {
					addedOwned++ // a new entry keyed by the victim / a new record tagged with it
				}
			}
		}
		removed := 0
		for _, n := range b {
			removed += n
		}
		short := k
		if len(short) > 90 {
			short = short[:90] + "…"
		}
		if removed > 0 {
			altered = true
		}
		if removed > 0 || addedOwned > 0 {
			lvl = 2
			desc = append(desc, fmt.Sprintf("~%s(-%d+%d)", short, removed, added))
		} else if added > 0 {
			if lvl < 1 {
				lvl = 1
			}
			desc = append(desc, fmt.Sprintf("+%s(+%d)", short, added))
		}
	}
	sort.Strings(desc)
	return lvl, desc, altered
}

// c03ResourceRefused: the transaction was refused on resource grounds by the SDK decorators that
// run BEFORE the authorisation decorator (gas for the transaction's size, transaction / memo too
// large): no ante events, nothing executed.  Like a failing ValidateBasic it never reaches the
// check the model describes (a hostile message with hundreds of long arguments does this).
func c03ResourceRefused(res FATxResult) bool {
	return res.Codespace == "sdk" && (res.Code == 11 || res.Code == 12 || res.Code == 21) && len(res.Events) == 0 && !res.Panicked
}

// c03WireCopy returns msg as a node sees it after decoding the transaction (proto round trip).
func c03WireCopy(fa *FullApp, msg sdk.Msg) sdk.Msg {
	cdc := fa.App().AppCodec()
	bz, err := cdc.MarshalInterface(msg)
	if err != nil {
		return msg
	}
	var out sdk.Msg
	if err := cdc.UnmarshalInterface(bz, &out); err != nil || out == nil {
		return msg
	}
	return out
}

func c03Ids(ps ...int) string {
	if len(ps) == 0 {
		return "-"
	}
	s := make([]string, len(ps))
	for i, p := range ps {
		s[i] = fmt.Sprint(p)
	}
	return strings.Join(s, ",")
}

func TestC03(t *testing.T) {
	r := NewRec(t, "C03")
	defer r.Close()
	// the in-memory IAVL keeps every version: the heap is large and mostly live
	defer debug.SetGCPercent(debug.SetGCPercent(600))
	w := NewZooWorld(t, r.Seed)
	fa := w.FA
	users, vals := []c03Principal{}, []c03Principal{}
	for i, u := range fa.Users {
		users = append(users, c03Principal{u, 10 + i})
	}
	for i, v := range fa.Vals[:len(fa.Vals)-1] {
		vals = append(vals, c03Principal{v, 20 + i})
	}
	sacrifice := c03Principal{w.Sacrifice, 20 + len(fa.Vals) - 1}
	grants := map[[2]int]bool{}
	grantTok := func() string {
		var g []string
		for k := range grants {
			g = append(g, fmt.Sprintf("%d:%d", k[0], k[1]))
		}
		sort.Strings(g)
		if len(g) == 0 {
			return "-"
		}
		return strings.Join(g, ",")
	}
	pick2 := func(ps []c03Principal) (c03Principal, c03Principal) {
		i := r.Rng.Intn(len(ps))
		j := (i + 1 + r.Rng.Intn(len(ps)-1)) % len(ps)
		return ps[i], ps[j]
	}
	authorityFieldOf := func(m ZooMsg, msg sdk.Msg, byAddr map[string]int) string {
		for _, f := range m.IdentityFields {
			if f.Name == "Authority" {
				// read it back through reflection-free means: all Authority fields are plain strings
				v := c03StringField(msg, "Authority")
				if v == w.Authority {
					return fmt.Sprint(c03Authority)
				}
				if p, ok := byAddr[v]; ok {
					return fmt.Sprint(p)
				}
				return "0"
			}
		}
		return "-"
	}
	byAddr := map[string]int{}
	for _, p := range append(append([]c03Principal{}, users...), append(vals, sacrifice)...) {
		byAddr[p.acc.Addr.String()] = p.pid
	}
	dir := newC03Dir(t, r, w, users, vals, byAddr, grants)

	// one observed delivery
	type obs struct {
		typ, sc              string
		depth                int // MsgExec layers around the message (x / wx scenarios)
		txSigner             int
		metaSigners          []int
		creator              int
		authf                string
		victim               int
		redirected           []string
		res                  FATxResult
		viaGov               bool
		before, after, noise map[string][]string
		pre                  bool // rejected by stateless validation / encoding, before the ante chain
	}
	record := func(o obs) {
		antePass := o.viaGov || o.res.Code == 0 && o.res.BlockErr == "" && !o.res.Panicked || len(o.res.Events) > 0
		ok := o.res.OK()
		chgLvl, diff, altered := c03ChangeAltered(o.before, o.after, o.noise)
		chg := chgLvl > 0
		// --- the property, evaluated on the observation with the Go-side tables
		verdict := "fine"
		if chg {
			authorised := false
			if o.victim == o.creator {
				for _, s := range o.metaSigners {
					if s == o.victim || grants[[2]int{o.victim, s}] {
						authorised = true
					}
				}
			}
			if _, open := c03Open[o.typ]; open && !altered {
				// a handler that ignores its sender may ADD workflow / migration records; it is
				// never a licence to alter or remove what a principal's own transactions wrote
				authorised = true
			}
			if o.viaGov {
				authorised = true
			}
			for _, f := range o.redirected {
				if _, okf := c03Allow[o.typ+"/"+f]; okf {
					authorised = true
				}
				// writing the victim's address as free text into one's OWN new records is not
				// a write to the victim's state; altering / removing anything of the victim's is
				if _, okf := c03FreeText[o.typ+"/"+f]; okf && chgLvl == 1 {
					authorised = true
				}
			}
			if !ok || !authorised {
				verdict = "violation"
			}
		}
		h := "rej"
		if ok {
			h = "ok"
		} else if o.pre {
			h = "pre"
		}
		red := "-"
		if len(o.redirected) > 0 {
			red = strings.Join(o.redirected, ",")
		}
		scTok := o.sc
		if o.depth > 0 {
			scTok = fmt.Sprintf("%s@%d", o.sc, o.depth)
		}
		line := fmt.Sprintf("tx %s %s %s %s %d %s %s %d %s %s %d", o.typ, scTok, c03Ids(o.txSigner), c03Ids(o.metaSigners...), o.creator, o.authf,
			grantTok(), o.victim, red, h, chgLvl)
		resTok := "rej"
		if ok {
			resTok = "ok"
		}
		out := fmt.Sprintf("ante=%s res=%s verdict=%s", map[bool]string{true: "pass", false: "rej"}[antePass], resTok, verdict)
		r.Op(line, out)
		r.Stat("sc:" + o.sc)
		r.Stat("res:" + h)
		if antePass {
			r.Stat("ante:pass")
		} else {
			r.Stat("ante:rej")
		}
		if chg {
			r.Stat("victim-state-changed")
		}
		if o.res.Panicked {
			r.Stat("handler-panic-recovered")
		}
		if verdict == "violation" {
			r.Hit("cross-principal-write", fmt.Sprintf("%s %s: state attributed to principal %d changed: %v (code=%d log=%.200s)", o.typ, o.sc, o.victim, diff, o.res.Code, o.res.Log), line)
		}
		unauthorisedScenario := o.sc == "a" || o.sc == "x" || o.sc == "w" || o.sc == "wx" || o.sc == "e" || o.sc == "e0" || strings.HasPrefix(o.sc, "d")
		if unauthorisedScenario && ok {
			r.Hit("unauthorised-accepted", fmt.Sprintf("%s scenario %s was accepted", o.typ, o.sc), line)
		}
		if (o.sc == "a" || o.sc == "e" || o.sc == "e0" || o.sc == "d3") && antePass {
			r.Hit("ante-bypassed", fmt.Sprintf("%s scenario %s passed the ante chain", o.typ, o.sc), line)
		}
		r.Case(o.typ+"/"+o.sc+"/"+red, ok || chg || !antePass)
	}

	all := ZooAll()
	ci := 0
	// request types whose stateless validation passes with an EMPTY metadata.signers (no
	// ValidateBasic, or one that does not look at the list): only those reach the authorisation
	// decorator without declaring a signer.  Found by trying, on a stream of its own.
	noVB := map[string]bool{}
	{
		prng := rand.New(rand.NewSource(r.Seed*7919 + 17))
		for _, m := range all {
			actor := users[0].acc
			if m.NeedsValidator {
				actor = vals[0].acc
			}
			var msg sdk.Msg
			if p := faRecover(func() { msg = m.Build(w, actor, prng, false) }); p != "" || msg == nil {
				continue
			}
			if !ZooSetMeta(msg, actor.Addr.String()) {
				continue
			}
			if p := faRecover(func() {
				if vb, has := c03WireCopy(fa, msg).(sdk.HasValidateBasic); !has || vb.ValidateBasic() == nil {
					noVB[m.Name] = true
				}
			}); p != "" {
				continue
			}
		}
		var names []string
		for n := range noVB {
			names = append(names, n)
		}
		sort.Strings(names)
		t.Logf("C03: request types that may declare no signer: %v", names)
	}

	// ---- multi-message transactions ---------------------------------------------------
	var userTypes, valTypes []ZooMsg
	for _, m := range all {
		switch {
		case m.AuthoritySigned:
		case m.NeedsValidator:
			valTypes = append(valTypes, m)
		default:
			userTypes = append(userTypes, m) // includes the metadata-signed governance-only types
		}
	}
	multiCase := func() {
		pool, types := users, userTypes
		if r.Rng.Intn(2) == 0 {
			pool, types = vals, valTypes
		}
		perm := r.Rng.Perm(len(pool))
		S, G, B, T := pool[perm[0]], pool[perm[1]], pool[perm[2]], pool[perm[3]]
		two := r.Rng.Intn(3) == 0
		letters := map[byte]c03Principal{'S': S, 'G': G, 'B': B, 'T': T}
		var pattern string
		switch r.Rng.Intn(8) {
		case 0, 1:
			pattern = "GB" // the attack order
		case 2:
			pattern = "BG"
		case 3:
			pattern = []string{"GBS", "SGB", "GSB", "BGS", "BSG", "SBG"}[r.Rng.Intn(6)]
		case 4:
			pattern = []string{"GS", "SG", "GG", "SS", "GGS"}[r.Rng.Intn(5)] // all authorised
		default:
			alphabet := "SGB"
			if two {
				alphabet = "SGBT"
			}
			n := 2 + r.Rng.Intn(2)
			for i := 0; i < n; i++ {
				pattern += string(alphabet[r.Rng.Intn(len(alphabet))])
			}
		}
		hostile := r.Rng.Intn(6) == 0
		// declared signers != transaction signers: which messages declare no signer at all
		undeclared := map[int]bool{}
		if r.Rng.Intn(4) == 0 {
			k := r.Rng.Intn(len(pattern))
			undeclared[k] = true
			if len(pattern) > 2 && r.Rng.Intn(3) == 0 {
				undeclared[(k+1)%len(pattern)] = true
			}
		}
		var msgs []sdk.Msg
		var toks []string
		var creators []int
		var metaSigners [][]int
		var txSigners []*FAAccount
		var txSignerIDs []int
		addSigner := func(p c03Principal) {
			for _, id := range txSignerIDs {
				if id == p.pid {
					return
				}
			}
			txSignerIDs = append(txSignerIDs, p.pid)
			txSigners = append(txSigners, p.acc)
		}
		for i := 0; i < len(pattern); i++ {
			c := letters[pattern[i]]
			m := types[r.Rng.Intn(len(types))]
			if i > 0 && r.Rng.Intn(3) == 0 {
				m, _ = ZooByName(strings.Split(toks[i-1], ";")[0]) // same type twice
			}
			if undeclared[i] && r.Rng.Intn(4) != 0 {
				// a type whose stateless validation does not look at the signers list
				var cand []ZooMsg
				for _, x := range types {
					if noVB[x.Name] {
						cand = append(cand, x)
					}
				}
				if len(cand) > 0 {
					m = cand[r.Rng.Intn(len(cand))]
				}
			}
			msg := m.Build(w, c.acc, r.Rng, hostile && !undeclared[i])
			ms := []c03Principal{S}
			if two {
				ms = [][]c03Principal{{S}, {T}, {S, T}, {T, S}}[r.Rng.Intn(4)]
			}
			if undeclared[i] {
				ms = nil
			}
			var addrs []string
			var ids []int
			for _, p := range ms {
				addrs = append(addrs, p.acc.Addr.String())
				ids = append(ids, p.pid)
				addSigner(p)
			}
			ZooSetMeta(msg, c.acc.Addr.String(), addrs...)
			msgs = append(msgs, msg)
			creators = append(creators, c.pid)
			metaSigners = append(metaSigners, ids)
			toks = append(toks, fmt.Sprintf("%s;%s;%d;%s", m.Name, c03Ids(ids...), c.pid, authorityFieldOf(m, msg, byAddr)))
		}
		if len(txSigners) == 0 {
			// every message undeclared: a transaction nobody has to sign; S signs it anyway
			addSigner(S)
		}
		if g := fa.GrantFee(G.acc, S.acc); !g.OK() {
			t.Fatalf("grant: %s %s", g.Log, g.BlockErr)
		}
		grants[[2]int{G.pid, S.pid}] = true
		victim := B
		if !strings.Contains(pattern, "B") {
			victim = G
			if !strings.Contains(pattern, "G") && !two {
				victim = T // a bystander
			}
		}
		before := c03Attributed(w, fa.CtxCached(), victim)
		noise := c03Attributed(w, c03EmptyBlock(w), victim)
		cfBefore := dir.confirmSnapshot()
		res := w.DeliverMulti(txSigners, msgs...)
		after := c03Attributed(w, fa.CtxCached(), victim)
		pre := res.BlockErr != "" && !res.Panicked || c03ResourceRefused(res)
		for _, msg := range msgs {
			if p := faRecover(func() {
				// baseapp validates the message as DECODED from the transaction bytes: an omitted
				// (nil) decimal, for example, arrives as zero
				wire := c03WireCopy(fa, msg)
				if vb, ok := wire.(sdk.HasValidateBasic); ok && vb.ValidateBasic() != nil {
					pre = true
				}
			}); p != "" {
				pre = true
			}
		}
		ok := res.OK()
		antePass := ok || len(res.Events) > 0
		chgLvl, diff := c03Change(before, after, noise)
		// every message individually: did its creator sign, or grant to one of its signers?
		// (a) as the decorator sees it: the signers the message declares; (b) the property: the
		// accounts whose keys really signed the transaction
		allAuthorised, allAuthorisedTx, victimAuthorised := true, true, false
		for i, c := range creators {
			a, aTx := false, false
			for _, sg := range metaSigners[i] {
				if sg == c || grants[[2]int{c, sg}] {
					a = true
				}
			}
			for _, sg := range txSignerIDs {
				if sg == c || grants[[2]int{c, sg}] {
					aTx = true
				}
			}
			if !a {
				allAuthorised = false
			}
			if !aTx {
				allAuthorisedTx = false
			}
			if a && aTx && c == victim.pid {
				victimAuthorised = true
			}
			if _, open := c03Open[strings.Split(toks[i], ";")[0]]; open {
				victimAuthorised = true
			}
		}
		verdict := "fine"
		if chgLvl > 0 && (!ok || !victimAuthorised) {
			verdict = "violation"
		}
		h := "rej"
		if ok {
			h = "ok"
		} else if pre {
			h = "pre"
		}
		sc := "m" + pattern
		if two {
			sc = "m2" + pattern
		}
		if len(undeclared) > 0 {
			sc = strings.Replace(sc, "m", "mz", 1)
			for i := range pattern {
				if undeclared[i] {
					sc += fmt.Sprint(i)
				}
			}
		}
		line := fmt.Sprintf("mtx %s %s %s %d %s %d %s", sc, c03Ids(txSignerIDs...), grantTok(), victim.pid, h, chgLvl, strings.Join(toks, " "))
		resTok := "rej"
		if ok {
			resTok = "ok"
		}
		r.Op(line, fmt.Sprintf("ante=%s res=%s verdict=%s", map[bool]string{true: "pass", false: "rej"}[antePass], resTok, verdict))
		dir.checkConfirms(cfBefore, line)
		r.Stat("sc:multi")
		if two {
			r.Stat("multi:two-signers")
		}
		if pattern == "GB" || pattern == "BG" {
			r.Stat("multi:attack-order")
		}
		r.Stat("res:" + h)
		if antePass {
			r.Stat("ante:pass")
		} else {
			r.Stat("ante:rej")
		}
		if allAuthorised {
			r.Stat("multi:all-authorised")
		}
		if chgLvl > 0 {
			r.Stat("victim-state-changed")
		}
		if verdict == "violation" {
			r.Hit("cross-principal-write", fmt.Sprintf("multi-message tx %s: state attributed to principal %d changed: %v (code=%d log=%.200s)", sc, victim.pid, diff, res.Code, res.Log), line)
		}
		if len(undeclared) > 0 {
			r.Stat("multi:undeclared-signers")
			if !pre {
				r.Stat("multi:undeclared-signers-reaches-ante")
			}
		}
		if !allAuthorisedTx && antePass {
			r.Hit("ante-bypassed", fmt.Sprintf("multi-message tx %s, really signed by %v, passed the ante chain although the creator of one of its messages neither signed the transaction nor granted an allowance to an account that signed it (accepted=%v)", sc, txSignerIDs, ok), line)
		} else if !allAuthorised && antePass && len(undeclared) == 0 {
			// direct consequence for transactions whose messages declare exactly accounts that
			// signed: the creator must be among / have granted to the signers of ITS message
			r.Hit("ante-bypassed", fmt.Sprintf("multi-message tx %s passed the ante chain although a message's creator neither signed nor granted to a signer (accepted=%v)", sc, ok), line)
		}
		r.Case("multi/"+sc+"/"+strings.Join(toks, " "), ok || chgLvl > 0 || !antePass)
		rv := feegrant.NewMsgRevokeAllowance(G.acc.Addr, S.acc.Addr)
		if g := fa.DeliverTx(G.acc, &rv); !g.OK() {
			t.Fatalf("revoke: %s %s", g.Log, g.BlockErr)
		}
		delete(grants, [2]int{G.pid, S.pid})
	}
	for cases := 0; cases < r.N; cases++ {
		w.Maintain()
		// directed multi-step histories on top of the r.N scenario cases (own random stream)
		switch cases % 10 {
		case 3:
			dir.denomHistory()
		case 7:
			dir.confirmHistory()
		case 1, 5:
			dir.lightNodeHistory()
		case 9:
			dir.dispatchHistory()
		}
		if r.Rng.Intn(10) < 3 {
			multiCase()
			continue
		}
		m := all[ci%len(all)]
		ci++
		hostile := r.Rng.Intn(4) == 0
		pool := users
		if m.NeedsValidator {
			pool = vals
		}
		A, B := pick2(pool)
		// applicable scenarios
		scs := []string{"ok", "a", "b", "e", "e0", "x", "x", "xb", "xs", "w", "w", "ws", "wx", "wx", "wxs"}
		if m.NeedsAuthority {
			scs = []string{"d", "d3", "gov", "e", "e0"}
			if len(m.IdentityFields) > 0 && m.IdentityFields[0].Name == "Authority" {
				scs = append(scs, "d2")
			}
			if m.AuthoritySigned {
				scs = append(scs, "gov2")
			}
		}
		for range m.IdentityFields {
			scs = append(scs, "c1")
		}
		tied := 0
		for _, f := range m.IdentityFields {
			if f.ActorTied {
				tied++
			}
		}
		if tied > 0 && !m.NeedsAuthority {
			scs = append(scs, "c2", "c2")
		}
		if m.Name == "skyway.SubmitBadSignatureEvidence" {
			scs = append(scs, "sig")
		}
		sc := scs[r.Rng.Intn(len(scs))]
		o := obs{typ: m.Name, sc: sc, txSigner: A.pid, metaSigners: []int{A.pid}, creator: A.pid, victim: B.pid}
		var msg sdk.Msg
		deliver := func() FATxResult { return w.Deliver(A.acc, A.acc, msg) }
		victim := B
		switch sc {
		case "ok":
			msg = m.Build(w, A.acc, r.Rng, hostile)
		case "a":
			msg = m.Build(w, B.acc, r.Rng, hostile)
			o.creator = B.pid
			deliver = func() FATxResult { return w.Deliver(A.acc, B.acc, msg) }
		case "b":
			msg = m.Build(w, B.acc, r.Rng, hostile)
			o.creator = B.pid
			if g := fa.GrantFee(B.acc, A.acc); !g.OK() {
				t.Fatalf("grant: %s %s", g.Log, g.BlockErr)
			}
			grants[[2]int{B.pid, A.pid}] = true
			deliver = func() FATxResult { return w.Deliver(A.acc, B.acc, msg) }
		case "x", "xb", "xs":
			// the message travels INSIDE an authz.MsgExec whose grantee is the transaction signer A (wrapped once, or
			// twice): authz executes an inner message without any authorisation when its declared signer is the
			// grantee itself, and hands it to the paloma handler, which trusts metadata.creator.
			//   x : creator B, declared signer A, no fee grant   -> nothing of B's may change
			//   xb: the same with a fee grant B -> A               -> A acts for B, as when unwrapped
			//   xs: A's own message, wrapped                        -> as when unwrapped
			who := B
			if sc == "xs" {
				who = A
			}
			msg = m.Build(w, who.acc, r.Rng, hostile)
			o.creator = who.pid
			if sc == "xb" {
				if g := fa.GrantFee(B.acc, A.acc); !g.OK() {
					t.Fatalf("grant: %s %s", g.Log, g.BlockErr)
				}
				grants[[2]int{B.pid, A.pid}] = true
			}
			// wrapped once or twice, or around and beyond the depth to which the decorator unfolds wrappers (6): whatever it
			// does with very deep nesting, it must not let the innermost message through unchecked
			depth := []int{1, 1, 2, 2, 5, 6, 7, 8, 12}[r.Rng.Intn(9)]
			r.Stat(fmt.Sprintf("exec-depth.%d", depth))
			o.depth = depth
			deliver = func() FATxResult {
				ZooSetMeta(msg, who.acc.Addr.String(), A.acc.Addr.String())
				var inner sdk.Msg = msg
				for k := 0; k < depth; k++ {
					ex := authz.NewMsgExec(A.acc.Addr, []sdk.Msg{inner})
					inner = &ex
				}
				return fa.DeliverTx(A.acc, inner)
			}
		case "w", "ws", "wx", "wxs":
			// the message is dispatched by a CosmWasm contract as CosmosMsg::Any (account A stands for the contract's
			// address): the chain only checks that the declared signer is the contract; no ante handler runs.
			//   w  : creator B, declared signer = the contract  -> nothing of B's may change
			//   ws : the contract's own message                  -> as if the contract were an account
			//   wx : as w, but inside an authz.MsgExec whose grantee is the contract (wrapped once or twice)
			//   wxs: as ws, wrapped
			who := B
			if sc == "ws" || sc == "wxs" {
				who = A
			}
			wdepth := 0
			if strings.HasPrefix(sc, "wx") {
				wdepth = []int{1, 1, 2, 2, 5, 6, 7, 8, 12}[r.Rng.Intn(9)]
			}
			o.depth = wdepth
			msg = m.Build(w, who.acc, r.Rng, hostile)
			o.creator = who.pid
			deliver = func() FATxResult {
				ZooSetMeta(msg, who.acc.Addr.String(), A.acc.Addr.String())
				var outer sdk.Msg = msg
				for k := 0; k < wdepth; k++ {
					ex := authz.NewMsgExec(A.acc.Addr, []sdk.Msg{outer})
					outer = &ex
				}
				// through the application's ONE router value, like every other dispatch of the test: whatever
				// earlier (honest) dispatches left behind in it is in force here
				res, gatePassed := dir.c03DispatchAny(A.acc, outer, wdepth)
				// the creator gate of the wasm message router plays the part of the ante decorator here: a
				// message it let through (and the handler then refused) counts as "passed"
				if !res.OK() && gatePassed {
					res.Events = []abci.Event{{Type: "verif-passed-the-creator-gate"}}
				}
				return res
			}
		case "e":
			msg = m.Build(w, B.acc, r.Rng, hostile)
			o.creator, o.metaSigners = B.pid, []int{B.pid}
			deliver = func() FATxResult {
				ZooSetMeta(msg, B.acc.Addr.String(), B.acc.Addr.String())
				return w.DeliverRawMeta(A.acc, msg)
			}
		case "e0":
			// no declared signer at all: in B's name, or (e0s) in the sender's own
			who := B
			if r.Rng.Intn(3) == 0 {
				who, o.sc = A, "e0s"
			}
			msg = m.Build(w, who.acc, r.Rng, hostile)
			o.creator, o.metaSigners = who.pid, nil
			deliver = func() FATxResult {
				ZooSetMeta(msg, who.acc.Addr.String())
				return w.DeliverRawMeta(A.acc, msg)
			}
		case "c1":
			f := m.IdentityFields[r.Rng.Intn(len(m.IdentityFields))]
			if f.Kind != "acc" || r.Rng.Intn(2) == 0 {
				// validator identities for val / eth fields (and half of the acc fields)
				for {
					victim = vals[r.Rng.Intn(len(vals))]
					if victim.pid != A.pid {
						break
					}
				}
			} else if m.NeedsValidator {
				victim = users[r.Rng.Intn(len(users))]
			}
			msg = m.Build(w, A.acc, r.Rng, hostile)
			f.Set(msg, victim.render(f.Kind))
			o.redirected = []string{f.Name}
			if m.NeedsAuthority {
				// governance-only type: a user redirecting a field still has to be rejected
				o.sc = "c1"
			}
		case "c2":
			if !m.NeedsValidator && r.Rng.Intn(2) == 0 {
				victim = vals[r.Rng.Intn(len(vals))]
			}
			msg = m.Build(w, victim.acc, r.Rng, hostile)
			for _, f := range m.IdentityFields {
				// the fields that tie the message to its actor all say "victim" (third-party
				// fields such as recipients keep whatever Build chose)
				if f.ActorTied {
					f.Set(msg, victim.render(f.Kind))
					o.redirected = append(o.redirected, f.Name)
				}
			}
		case "d":
			msg = m.Build(w, A.acc, r.Rng, hostile)
			victim = c03Principal{pid: c03Authority}
		case "d2":
			msg = m.Build(w, A.acc, r.Rng, hostile)
			m.IdentityFields[0].Set(msg, A.acc.Addr.String())
			victim = c03Principal{pid: c03Authority}
		case "d3":
			msg = m.Build(w, A.acc, r.Rng, hostile)
			o.creator = c03Authority
			victim = c03Principal{pid: c03Authority}
			deliver = func() FATxResult {
				ZooSetMeta(msg, w.Authority, A.acc.Addr.String())
				return w.DeliverRawMeta(A.acc, msg)
			}
		case "gov":
			msg = m.Build(w, A.acc, r.Rng, hostile)
			o.txSigner, o.metaSigners, o.creator, o.viaGov = c03Authority, []int{c03Authority}, c03Authority, true
			deliver = func() FATxResult { return w.DeliverGov(msg) }
		case "gov2":
			msg = m.Build(w, A.acc, r.Rng, hostile)
			o.txSigner, o.metaSigners, o.creator, o.viaGov = c03Authority, []int{A.pid}, A.pid, true
			deliver = func() FATxResult {
				ZooSetMeta(msg, A.acc.Addr.String(), A.acc.Addr.String())
				return w.DeliverRouter(msg)
			}
		case "sig":
			msg = m.Build(w, A.acc, r.Rng, false)
			victim = sacrifice
			o.redirected = []string{"Signature"}
		}
		o.victim = victim.pid
		o.authf = authorityFieldOf(m, msg, byAddr)
		o.before = c03Attributed(w, fa.CtxCached(), victim)
		o.noise = c03Attributed(w, c03EmptyBlock(w), victim)
		cfBefore := dir.confirmSnapshot()
		o.res = deliver()
		o.after = c03Attributed(w, fa.CtxCached(), victim)
		wrapped := strings.HasPrefix(sc, "x") || strings.HasPrefix(sc, "w")
		if p := faRecover(func() {
			// baseapp validates only the transaction's own messages statelessly; a message inside an authz
			// MsgExec is validated when authz dispatches it, i.e. AFTER the ante chain
			if vb, ok := c03WireCopy(fa, msg).(sdk.HasValidateBasic); ok && vb.ValidateBasic() != nil && !wrapped {
				o.pre = true
			}
		}); p != "" && !wrapped {
			o.pre = true
		}
		if o.res.BlockErr != "" && !o.res.Panicked {
			o.pre = true // the transaction could not even be encoded / signed
		}
		if c03ResourceRefused(o.res) {
			o.pre = true
		}
		record(o)
		dir.checkConfirms(cfBefore, fmt.Sprintf("%s %s signer=%d creator=%d victim=%d redirected=%v", o.typ, o.sc, o.txSigner, o.creator, o.victim, o.redirected))
		if sc == "b" || sc == "xb" {
			rv := feegrant.NewMsgRevokeAllowance(B.acc.Addr, A.acc.Addr)
			if g := fa.DeliverTx(B.acc, &rv); !g.OK() {
				t.Fatalf("revoke: %s %s", g.Log, g.BlockErr)
			}
			delete(grants, [2]int{B.pid, A.pid})
		}
	}
	if j := w.Jailed(); len(j) > 1 || (len(j) == 1 && j[0] != w.Sacrifice.Name) {
		t.Logf("C03: validators jailed during the run: %v", j)
		r.Stat("world-degraded")
	}
	t.Logf("C03: %d cases, height %d, stats %v", r.N, fa.Height(), r.Stats)
	for _, h := range r.Monitors {
		t.Logf("MONITOR %s: %s\n   replay: %v", h.Monitor, h.What, h.Input)
	}
}

// c03StringField reads a top-level string field of a message by name.
func c03StringField(msg sdk.Msg, name string) string {
	type authorityGetter interface{ GetAuthority() string }
	if name == "Authority" {
		if g, ok := msg.(authorityGetter); ok {
			return g.GetAuthority()
		}
	}
	return ""
}

// TestC03MonitorSensitivity emulates regressions of the two repaired gaps with the real keepers
// and checks that the attribution diff used by TestC03 sees them (level 2 = something keyed by /
// belonging to the victim was created or altered):
//   - skyway claims without the orchestrator == creator check: exactly what the handler does
//     after the check (Attest with the claim naming the victim as orchestrator);
//   - MsgUpsertRelayerFee without the ValidateBasic check: the treasury handler called directly
//     (it never looks at the creator) with FeeSetting.ValAddress = the victim.
func TestC03MonitorSensitivity(t *testing.T) {
	w := NewZooWorld(t, 1)
	fa := w.FA
	A, B := fa.Vals[0], fa.Vals[1]
	victim := c03Principal{B, 21}
	watch := func(what string, fn func(ctx sdk.Context) error) {
		before := c03Attributed(w, fa.CtxCached(), victim)
		noise := c03Attributed(w, c03EmptyBlock(w), victim)
		if err := w.God(fn); err != nil {
			t.Fatalf("%s: %v", what, err)
		}
		lvl, diff := c03Change(before, c03Attributed(w, fa.CtxCached(), victim), noise)
		t.Logf("%s: level %d %v", what, lvl, diff)
		if lvl != 2 {
			t.Fatalf("%s: the monitor did not see the cross-principal write (level %d)", what, lvl)
		}
	}
	watch("claim cast in the victim's name", func(ctx sdk.Context) error {
		claim := &skywaytypes.MsgSendToPalomaClaim{EventNonce: 1, EthBlockHeight: 1001, TokenContract: ZooBridgeERC20, Amount: sdkmath.NewInt(5),
			EthereumSender: "0x00000000000000000000000000000000000000B1", PalomaReceiver: fa.User(0).Addr.String(), Orchestrator: B.Addr.String(),
			ChainReferenceId: ZooChain, SkywayNonce: 1, CompassId: w.compassID(), Metadata: FAMeta(A.Addr, A.Addr)}
		anyClaim, err := codectypes.NewAnyWithValue(claim)
		if err != nil {
			return err
		}
		_, err = fa.App().SkywayKeeper.Attest(ctx, claim, anyClaim)
		return err
	})
	watch("relayer fee of the victim set by somebody else", func(ctx sdk.Context) error {
		msg := &treasurytypes.MsgUpsertRelayerFee{Metadata: FAMeta(A.Addr, A.Addr), FeeSetting: &treasurytypes.RelayerFeeSetting{
			ValAddress: B.ValAddr().String(),
			Fees:       []treasurytypes.RelayerFeeSetting_FeeSetting{{Multiplicator: sdkmath.LegacyNewDec(9), ChainReferenceId: ZooChain}},
		}}
		_, err := treasurykeeper.NewMsgServerImpl(fa.App().TreasuryKeeper).UpsertRelayerFee(ctx, msg)
		return err
	})
	// and the legitimate counterpart is NOT attributed to the bystander
	before := c03Attributed(w, fa.CtxCached(), victim)
	noise := c03Attributed(w, c03EmptyBlock(w), victim)
	m, _ := ZooByName("treasury.UpsertRelayerFee")
	if r := w.Deliver(A, A, m.Build(w, A, rand.New(rand.NewSource(1)), false)); !r.OK() {
		t.Fatalf("own fee: %s", r.Log)
	}
	if lvl, diff := c03Change(before, c03Attributed(w, fa.CtxCached(), victim), noise); lvl != 0 {
		t.Fatalf("a validator changing its own fee was attributed to a bystander: %v", diff)
	}
}

// =====================================================================================
// Directed multi-step histories (ops `dnh` and `cbh`) and the two resource-level monitors
// =====================================================================================
//
// The per-message scenarios above always act on objects whose owner is the principal whose
// address is part of the object's NAME (EnsureDenom(actor) never returns a denom whose admin is
// somebody else) and always send batch confirmations whose orchestrator is the sender.  Two
// whole classes of input are therefore driven here:
//
//   dnh  transferable ownership: a token-factory denom factory/<C>/<sub> is created, handed
//        over (MsgChangeAdmin, also to "nobody"), handed on, and after every hand-over the
//        FORMER admins, the creator named in the denom, the new admin, bystanders and grantees
//        try every admin-gated operation on it (ChangeAdmin, Mint, Burn, SetDenomMetadata,
//        skyway SetERC20ToTokenDenom), through signed transactions and through the wasm
//        bindings of tokenfactory / skyway (the contract address is the actor there).
//        Property evaluated on the implementation (monitor denom-cross-principal-write): what
//        the chain keeps for a denom (authority metadata, bank metadata, supply, ERC20 bridge
//        bindings) is its CURRENT admin's; it changes only through a transaction signed by
//        that admin or by an address holding a fee grant from it.
//        Every history has TWO denoms named after different principals, and the binding
//        messages that carry two denom-bearing fields (set_metadata / create_denom with
//        metadata: `denom` and `metadata.base`) spell in the second one nothing, the same, the
//        OTHER denom (existing or not yet created) or an unrelated string; the rule is
//        evaluated on both denoms, whichever the message names.  At any point the chain may be
//        exported and started again from the export (step `reimport`, token factory module):
//        nobody's transaction, so (monitor denom-changed-without-transaction) admin, records,
//        supply and bindings of every denom are as before, and the former admins stay locked
//        out afterwards.  (lnh has the same step for the paloma module.)
//
//   cbh  batch confirmations where sender, orchestrator, eth signer, signing key and signed
//        item are chosen INDEPENDENTLY (honest, relayed by somebody else, filed under another
//        validator with the sender's own key and real signature, crossed key / signer, another
//        batch's checkpoint, another compass id, v = 27/28 form, replays, non-validators).
//        Property evaluated on the implementation after EVERY delivery of the whole test
//        (monitor confirm-not-validators-own-signature): a confirmation filed under validator V
//        names V's registered key on the batch's chain as eth signer and carries a signature
//        that recovers (go-ethereum, independent of x/skyway/types) to that key over exactly
//        the stored batch's checkpoint.
//
// Each history is ONE protocol line (the Lean driver for C03 is stateless between lines): the
// model replays the whole history from the empty state and must reproduce every result and the
// final ownership / confirmation set.

type c03Dir struct {
	t      *testing.T
	r      *Rec
	w      *ZooWorld
	rng    *rand.Rand
	users  []c03Principal
	vals   []c03Principal // without the sacrificial validator
	byAddr map[string]int // account bech32 -> principal id
	byEth  map[string]int // lower-case hex eth address -> id of the validator whose key it is
	grants map[[2]int]bool

	denomSeq int
	prevCP   []byte
	// the wasm message router of the running application (c03_dispatch_test.go): one value per
	// application instance, shared by every contract dispatch of the test
	rtApp  interface{}
	rt     c03Messenger
	tfWasm interface {
		DispatchMsg(sdk.Context, sdk.AccAddress, string, tfbindingstypes.Message) ([]sdk.Event, [][]byte, [][]*codectypes.Any, error)
	}
	skyWasm interface {
		DispatchMsg(sdk.Context, sdk.AccAddress, string, skywaybindingstypes.Message) ([]sdk.Event, [][]byte, [][]*codectypes.Any, error)
	}
}

func newC03Dir(t *testing.T, r *Rec, w *ZooWorld, users, vals []c03Principal, byAddr map[string]int, grants map[[2]int]bool) *c03Dir {
	d := &c03Dir{t: t, r: r, w: w, users: users, vals: vals, byAddr: byAddr, grants: grants, byEth: map[string]int{},
		// own stream: the directed histories must not shift the scenario choices of the main loop
		rng: rand.New(rand.NewSource(r.Seed*104729 + 303))}
	for _, v := range vals {
		d.byEth[strings.ToLower(v.acc.EthAddr.Hex())] = v.pid
	}
	return d
}

// wasm messengers are built exactly as app.buildWasmMessageDecorator does (per call: the app may
// have been restarted)
func (d *c03Dir) wasm() bool {
	a := d.w.FA.App()
	bbk, ok := a.BankKeeper.(bankkeeper.BaseKeeper)
	if !ok {
		return false
	}
	d.tfWasm = tfbindings.NewMessenger(&bbk, &a.TokenFactoryKeeper)
	d.skyWasm = skywaybindings.NewMessenger(skywaykeeper.NewMsgServerImpl(a.SkywayKeeper))
	return true
}

func (d *c03Dir) pidOfAddr(addr string) int {
	if addr == "" {
		return 0
	}
	if p, ok := d.byAddr[addr]; ok {
		return p
	}
	return 1
}

// ---- denoms ---------------------------------------------------------------------------

// c03DenomSt is everything the chain keeps FOR a denom, by component.
type c03DenomSt struct {
	admin  string
	exists bool
	comp   map[string]string
}

// c03DenomStates: the same for several denoms with one pass over the stores.
func c03DenomStates(w *ZooWorld, ctx sdk.Context, denoms ...string) []c03DenomSt {
	a := w.FA.App()
	dg := func(parts ...[]byte) string {
		h := sha256.New()
		for _, p := range parts {
			fmt.Fprintf(h, "%d:", len(p))
			h.Write(p)
		}
		return hex.EncodeToString(h.Sum(nil)[:8])
	}
	tfStore := c03DumpCtx(w.FA, ctx, "tokenfactory")
	e2d, errE := a.SkywayKeeper.GetAllERC20ToDenoms(ctx)
	d2e, errD := a.SkywayKeeper.GetAllDenomToERC20s(ctx)
	out := make([]c03DenomSt, len(denoms))
	for i, denom := range denoms {
		comp := map[string]string{}
		admin, exists := "", false
		if md, err := a.TokenFactoryKeeper.GetAuthorityMetadata(ctx, denom); err == nil {
			admin = md.Admin
		} else {
			admin = "?" + err.Error()
		}
		comp["admin"] = admin
		var tf [][]byte
		for _, kv := range tfStore {
			if bytes.Contains(kv[0], []byte(denom)) || bytes.Contains(kv[1], []byte(denom)) {
				tf = append(tf, kv[0], kv[1])
				exists = true
			}
		}
		comp["tokenfactory-records"] = dg(tf...)
		if m, ok := a.BankKeeper.GetDenomMetaData(ctx, denom); ok {
			bz, _ := m.Marshal()
			comp["bank-metadata"] = dg(bz)
			exists = true
		} else {
			comp["bank-metadata"] = "-"
		}
		comp["supply"] = a.BankKeeper.GetSupply(ctx, denom).Amount.String()
		var binds []string
		if errE == nil {
			for _, b := range e2d {
				if b != nil && b.Denom == denom {
					binds = append(binds, "e>"+b.ChainReferenceId+"/"+strings.ToLower(b.Erc20))
				}
			}
		}
		if errD == nil {
			for _, b := range d2e {
				if b != nil && b.Denom == denom {
					binds = append(binds, "d>"+b.ChainReferenceId+"/"+strings.ToLower(b.Erc20))
				}
			}
		}
		sort.Strings(binds)
		comp["bridge-binding"] = strings.Join(binds, ",")
		out[i] = c03DenomSt{admin, exists, comp}
	}
	return out
}

func c03DenomDiff(a, b map[string]string) []string {
	var out []string
	for k, v := range a {
		if b[k] != v {
			out = append(out, k)
		}
	}
	sort.Strings(out)
	return out
}

// c03DenomMetaKind: the bank's metadata record of a denom: "-" none, "d" the default record
// createDenomAfterValidation writes, "c" anything else.
func c03DenomMetaKind(w *ZooWorld, ctx sdk.Context, denom string) string {
	m, ok := w.FA.App().BankKeeper.GetDenomMetaData(ctx, denom)
	if !ok {
		return "-"
	}
	def := banktypes.Metadata{DenomUnits: []*banktypes.DenomUnit{{Denom: denom, Exponent: 0}}, Base: denom}
	a, _ := m.Marshal()
	b, _ := def.Marshal()
	if bytes.Equal(a, b) {
		return "d"
	}
	return "c"
}

// drainDenom brings the supply of denom to zero ("everything minted was burned again"): the state
// every holder sending its coins to the admin and the admin burning them reaches.
func (d *c03Dir) drainDenom(denom string, holders []c03Principal) {
	a := d.w.FA.App()
	_ = d.w.God(func(ctx sdk.Context) error {
		for _, p := range holders {
			bal := a.BankKeeper.GetBalance(ctx, p.acc.Addr, denom)
			if !bal.IsPositive() {
				continue
			}
			c := sdk.NewCoins(bal)
			if err := a.BankKeeper.SendCoinsFromAccountToModule(ctx, p.acc.Addr, tokenfactorytypes.ModuleName, c); err != nil {
				return err
			}
			if err := a.BankKeeper.BurnCoins(ctx, tokenfactorytypes.ModuleName, c); err != nil {
				return err
			}
		}
		return nil
	})
}

// denomHistory: one `dnh` line.  TWO denoms (1: factory/<C>/<sub>, 2: factory/<F>/<sub>f, named after
// different principals) are created, handed over, handed on, used by current / former admins, the
// accounts in their names, bystanders and grantees, by signed transactions and through the wasm
// bindings.  Through the bindings a message's own fields may DISAGREE (set_metadata / create_denom
// carry a `denom`, whose admin the binding compares with the contract, and a `metadata.base`, the key
// of the bank record): `base` is left empty, spells the same denom, the OTHER denom (existing or
// not yet created) or an unrelated string.  At any point the chain may be exported and started
// again from the export (token factory module): no transaction of anybody.  The monitors evaluate
// the property on BOTH denoms after every step.
func (d *c03Dir) denomHistory() {
	w, fa, rng, r := d.w, d.w.FA, d.rng, d.r
	a := fa.App()
	all := append(append([]c03Principal{}, d.users...), d.vals...)
	perm := rng.Perm(len(all))
	pool := []c03Principal{all[perm[0]], all[perm[1]], all[perm[2]], all[perm[3]]}
	C, F := pool[0], pool[1]
	d.denomSeq++
	namesake := [3]c03Principal{{}, C, F}
	subs := [3]string{"", fmt.Sprintf("h%05d", d.denomSeq), fmt.Sprintf("h%05df", d.denomSeq)}
	denoms := [3]string{"", "factory/" + C.acc.Addr.String() + "/" + subs[1], "factory/" + F.acc.Addr.String() + "/" + subs[2]}
	unrelated := "factory/" + pool[2].acc.Addr.String() + "/" + subs[1] + "x" // spelled in a `base` only (token 9)
	haveWasm := d.wasm()
	// a hostile governance case may have left an unpayable creation fee behind
	_ = w.God(func(ctx sdk.Context) error {
		fee := a.TokenFactoryKeeper.GetParams(ctx).DenomCreationFee
		if !fee.IsValid() || !a.BankKeeper.SpendableCoins(ctx, C.acc.Addr).IsAllGTE(fee) || !a.BankKeeper.SpendableCoins(ctx, F.acc.Addr).IsAllGTE(fee) {
			a.TokenFactoryKeeper.SetParams(ctx, tokenfactorytypes.DefaultParams())
		}
		return nil
	})
	byPid := map[int]c03Principal{}
	for _, p := range pool {
		byPid[p.pid] = p
	}
	other := func(not int) c03Principal {
		for {
			p := pool[rng.Intn(len(pool))]
			if p.pid != not {
				return p
			}
		}
	}
	var cur [3]int      // admin as last observed on the implementation (0: none)
	var former [3][]int // principals that were admin before (and the creator named in the denom)
	var created [3]bool
	var wantRecreate [3]bool
	steps := 6 + rng.Intn(4)
	var toks, outs []string
	line := func() string { return fmt.Sprintf("dnh %d %d %s", C.pid, F.pid, strings.Join(toks, " ")) }
	nontrivial := false
	wantReimport := false
	type dstate = c03DenomSt
	observe := func() (o [3]dstate) {
		sts := c03DenomStates(w, fa.CtxCached(), denoms[1], denoms[2])
		o[1], o[2] = sts[0], sts[1]
		return o
	}
	show := func() string {
		ctx := fa.CtxCached()
		var p []string
		for dn := 1; dn <= 2; dn++ {
			adm := ""
			if md, err := a.TokenFactoryKeeper.GetAuthorityMetadata(ctx, denoms[dn]); err == nil {
				adm = md.Admin
			}
			p = append(p, fmt.Sprintf("%d/%s", d.pidOfAddr(adm), c03DenomMetaKind(w, ctx, denoms[dn])))
		}
		return strings.Join(p, ":")
	}
	// bookkeeping of who was admin (drives the choice of signers only)
	track := func(post [3]dstate) {
		for dn := 1; dn <= 2; dn++ {
			created[dn] = post[dn].exists
			if np := d.pidOfAddr(post[dn].admin); np != cur[dn] {
				if cur[dn] > 1 {
					former[dn] = append(former[dn], cur[dn])
				}
				if cur[dn] > 1 || np > 1 {
					r.Stat("dnh:admin-changed")
				}
				cur[dn] = np
			}
			if created[dn] && len(former[dn]) == 0 && cur[dn] != namesake[dn].pid {
				former[dn] = append(former[dn], namesake[dn].pid)
			}
		}
	}
	for i := 0; i < steps; i++ {
		if !created[1] && i > 2 {
			break // nothing exists: two more attempts were enough
		}
		// ---- the chain is exported and started again from the export: nobody's transaction
		if i > 0 && (wantReimport || rng.Intn(100) < 8) {
			wantReimport = false
			pre := observe()
			cfBefore := d.confirmSnapshot()
			err := w.God(func(ctx sdk.Context) error { return fa.ReimportModuleCtx(ctx, "tokenfactory", "tokenfactory") })
			if fa.Broken {
				fa.Restart()
				haveWasm = d.wasm()
			}
			post := observe()
			toks = append(toks, "reimport;-;0;0;0;-;0")
			res := "ok"
			if err != nil {
				res = "rej"
				r.Hit("denom-export-import-failed", fmt.Sprintf("genesis export / import of the token factory failed: %.300v", err), line())
			}
			outs = append(outs, res+":"+show())
			for dn := 1; dn <= 2; dn++ {
				for _, comp := range c03DenomDiff(pre[dn].comp, post[dn].comp) {
					if comp == "bank-metadata" && c03DenomMetaKind(w, fa.CtxCached(), denoms[dn]) == "d" {
						// as built (observation shared with C16, compared with the model's `dReimport`): InitGenesis
						// writes the default bank record again; nobody gains anything by it
						r.Stat("dnh:reimport-resets-custom-metadata")
						continue
					}
					r.Hit("denom-changed-without-transaction", fmt.Sprintf("a chain export / import (no transaction of anybody) changed %s of denom %d = factory/<%d>/%s, kept for its admin principal %d (admin afterwards: principal %d)",
						comp, dn, namesake[dn].pid, subs[dn], d.pidOfAddr(pre[dn].admin), d.pidOfAddr(post[dn].admin)), line())
				}
			}
			d.checkConfirms(cfBefore, line())
			r.Stat("dnh:reimport")
			if cur[1] > 1 && cur[1] != C.pid || cur[2] > 1 && cur[2] != F.pid {
				r.Stat("dnh:reimport-after-hand-over")
			}
			if created[1] && cur[1] == 0 || created[2] && cur[2] == 0 {
				r.Stat("dnh:reimport-after-renouncement")
			}
			track(post)
			continue
		}
		dn := 1
		if i > 0 && rng.Intn(4) == 0 {
			dn = 2
		}
		denom, sub := denoms[dn], subs[dn]
		kind := []string{"chadmin", "mint", "burn", "setmeta", "bind"}[rng.Intn(5)]
		var S c03Principal
		switch x := rng.Intn(100); {
		case cur[dn] > 1 && x < 40:
			S = byPid[cur[dn]]
		case len(former[dn]) > 0 && x < 75:
			S = byPid[former[dn][rng.Intn(len(former[dn]))]]
		default:
			S = pool[rng.Intn(len(pool))]
		}
		if S.acc == nil {
			S = pool[rng.Intn(len(pool))]
		}
		if S.pid == cur[dn] && rng.Intn(100) < 40 {
			kind = "chadmin" // hand-overs are what the histories are about
		}
		Cr, g := S, false
		if cur[dn] > 1 && S.pid != cur[dn] && rng.Intn(5) == 0 {
			Cr, g = byPid[cur[dn]], rng.Intn(2) == 0 // in the admin's name: without / with a fee grant
		}
		if !created[dn] && (i == 0 || rng.Intn(4) != 0) {
			kind, S, Cr, g = "create", namesake[dn], namesake[dn], false
			if rng.Intn(10) == 0 {
				S, g = other(namesake[dn].pid), rng.Intn(2) == 0
			}
		}
		// RE-CREATION: a creating message for a denom that already EXISTS.  The only account whose
		// MsgCreateDenom / create_denom spells factory/<N>/<sub> is N, the account in the name - which after a
		// hand-over is a FORMER admin.  Sent right after a hand-over or a renouncement, later in the
		// history, after mints and burns, and with the denom's supply at exactly zero (never minted, or
		// everything burned again): whatever the chain looks at to decide "exists", a denom that exists is
		// its current admin's and a second creation must leave admin, records, metadata and supply alone.
		recreate := false
		if created[dn] && (wantRecreate[dn] || rng.Intn(100) < 10) {
			wantRecreate[dn] = false
			recreate = true
			kind, S, Cr, g = "create", namesake[dn], namesake[dn], false
			if rng.Intn(8) == 0 {
				S, g = other(namesake[dn].pid), rng.Intn(2) == 0
			}
			if rng.Intn(2) == 0 {
				d.drainDenom(denom, pool)
			}
		}
		route := "t"
		if haveWasm && Cr.pid == S.pid && !g && rng.Intn(3) == 0 {
			route = "w"
		}
		// fields that disagree: the admin of THIS denom names the OTHER denom as metadata.base
		disagree := !recreate && haveWasm && created[dn] && cur[dn] > 1 && rng.Intn(100) < 15
		if disagree {
			S, Cr, g, kind, route = byPid[cur[dn]], byPid[cur[dn]], false, "setmeta", "w"
		}
		arg := "-"
		newAdmin := ""
		baseTok, base := 0, "" // metadata.base of set_metadata / create_denom through the binding
		withMeta := false
		pickBase := func() {
			switch x := rng.Intn(100); {
			case disagree || x < 25:
				baseTok, base = 3-dn, denoms[3-dn]
			case x < 55:
				baseTok, base = 0, ""
			case x < 90:
				baseTok, base = dn, denom
			default:
				baseTok, base = 9, []string{unrelated, FABondDenom, "factory/x"}[rng.Intn(3)]
			}
		}
		switch kind {
		case "chadmin":
			switch x := rng.Intn(100); {
			case x < 15 && route == "t":
				arg, newAdmin = "0", "" // renounce
			case x < 16:
				arg, newAdmin = fmt.Sprint(Cr.pid), Cr.acc.Addr.String()
			default:
				p := other(Cr.pid)
				arg, newAdmin = fmt.Sprint(p.pid), p.acc.Addr.String()
			}
		case "setmeta":
			baseTok, base = dn, denom
			if route == "w" {
				pickBase()
			}
			arg = fmt.Sprint(baseTok)
		case "create":
			if route == "w" && rng.Intn(2) == 0 {
				withMeta = true
				pickBase()
				arg = fmt.Sprintf("m%d", baseTok)
			}
		}
		if kind == "burn" {
			// the admin burns from its own account: give every candidate something to burn
			_ = w.God(func(ctx sdk.Context) error {
				if _, ok := a.BankKeeper.GetDenomMetaData(ctx, denom); !ok {
					return nil
				}
				c := sdk.NewCoins(sdk.NewInt64Coin(denom, 5))
				if err := a.BankKeeper.MintCoins(ctx, tokenfactorytypes.ModuleName, c); err != nil {
					return err
				}
				return a.BankKeeper.SendCoinsFromModuleToAccount(ctx, tokenfactorytypes.ModuleName, Cr.acc.Addr, c)
			})
		}
		if g {
			if gr := fa.GrantFee(Cr.acc, S.acc); !gr.OK() {
				d.t.Fatalf("grant: %s %s", gr.Log, gr.BlockErr)
			}
			d.grants[[2]int{Cr.pid, S.pid}] = true
		}
		n := w.next()
		erc20 := fmt.Sprintf("0x%040x", 0xD000000+n)
		desc := fmt.Sprintf("dnh %d", n)
		// a metadata record consistent with the base it names (bank's Metadata.Validate passes)
		unit := base
		if unit == "" {
			unit = denom
		}
		wasmMeta := tfbindingstypes.Metadata{Description: desc, Base: base, Display: unit, Name: "Dnh", Symbol: "DNH",
			DenomUnits: []tfbindingstypes.DenomUnit{{Denom: unit, Exponent: 0}}}
		pre := observe()
		cfBefore := d.confirmSnapshot()
		ok := false
		if route == "t" {
			var msg sdk.Msg
			switch kind {
			case "create":
				msg = &tokenfactorytypes.MsgCreateDenom{Subdenom: sub}
			case "chadmin":
				msg = &tokenfactorytypes.MsgChangeAdmin{Denom: denom, NewAdmin: newAdmin}
			case "mint":
				msg = &tokenfactorytypes.MsgMint{Amount: sdk.NewInt64Coin(denom, 100)}
			case "burn":
				msg = &tokenfactorytypes.MsgBurn{Amount: sdk.NewInt64Coin(denom, 1)}
			case "setmeta":
				msg = &tokenfactorytypes.MsgSetDenomMetadata{DenomMetadata: banktypes.Metadata{Description: desc, Base: denom, Display: denom,
					Name: "Dnh", Symbol: "DNH", DenomUnits: []*banktypes.DenomUnit{{Denom: denom, Exponent: 0}}}}
			case "bind":
				msg = &skywaytypes.MsgSetERC20ToTokenDenom{Denom: denom, ChainReferenceId: ZooChain, Erc20: erc20}
			}
			ok = w.Deliver(S.acc, Cr.acc, msg).OK()
		} else {
			// one contract call: atomic (w.God commits only when the binding returns no error)
			err := w.God(func(ctx sdk.Context) error {
				var err error
				switch kind {
				case "create":
					cd := &tfbindingstypes.CreateDenom{Subdenom: sub}
					if withMeta {
						cd.Metadata = &wasmMeta
					}
					_, _, _, err = d.tfWasm.DispatchMsg(ctx, S.acc.Addr, "", tfbindingstypes.Message{CreateDenom: cd})
				case "chadmin":
					_, _, _, err = d.tfWasm.DispatchMsg(ctx, S.acc.Addr, "", tfbindingstypes.Message{ChangeAdmin: &tfbindingstypes.ChangeAdmin{Denom: denom, NewAdminAddress: newAdmin}})
				case "mint":
					to := S
					if rng.Intn(3) == 0 {
						to = pool[rng.Intn(len(pool))]
					}
					_, _, _, err = d.tfWasm.DispatchMsg(ctx, S.acc.Addr, "", tfbindingstypes.Message{MintTokens: &tfbindingstypes.MintTokens{Denom: denom, Amount: sdkmath.NewInt(100), MintToAddress: to.acc.Addr.String()}})
				case "burn":
					_, _, _, err = d.tfWasm.DispatchMsg(ctx, S.acc.Addr, "", tfbindingstypes.Message{BurnTokens: &tfbindingstypes.BurnTokens{Denom: denom, Amount: sdkmath.NewInt(1)}})
				case "setmeta":
					_, _, _, err = d.tfWasm.DispatchMsg(ctx, S.acc.Addr, "", tfbindingstypes.Message{SetMetadata: &tfbindingstypes.SetMetadata{Denom: denom, Metadata: wasmMeta}})
				case "bind":
					_, _, _, err = d.skyWasm.DispatchMsg(ctx, S.acc.Addr, "", skywaybindingstypes.Message{SetErc20ToDenom: &skywaybindingstypes.SetErc20ToDenom{
						Erc20Address: erc20, TokenDenom: denom, ChainReferenceId: ZooChain}})
				}
				return err
			})
			ok = err == nil
			if fa.Broken {
				fa.Restart()
				haveWasm = d.wasm()
			}
		}
		post := observe()
		tok := fmt.Sprintf("%s;%s;%d;%d;%d;%s;%d", kind, route, S.pid, Cr.pid, map[bool]int{false: 0, true: 1}[g], arg, dn)
		toks = append(toks, tok)
		res := "rej"
		if ok {
			res = "ok"
			nontrivial = true
		}
		outs = append(outs, res+":"+show())
		// --- the property on the implementation, for EACH denom (whichever the message names, in whichever
		// field): a denom's state is its current admin's (before it exists: the account it is named after);
		// it changes only with that principal's authorisation
		for x := 1; x <= 2; x++ {
			diff := c03DenomDiff(pre[x].comp, post[x].comp)
			if len(diff) == 0 {
				continue
			}
			owner := pre[x].admin
			if !pre[x].exists {
				owner = namesake[x].acc.Addr.String()
			}
			authorised := owner != "" && (S.acc.Addr.String() == owner || d.grants[[2]int{d.pidOfAddr(owner), S.pid}])
			if !ok || !authorised {
				r.Hit("denom-cross-principal-write", fmt.Sprintf("state kept for denom %d = factory/<%d>/%s (%v) changed by %s (route %s, message denom %d, metadata.base token %s) signed by principal %d (creator %d, fee grant %v) although its admin at that time was principal %d (accepted=%v)",
					x, namesake[x].pid, subs[x], diff, kind, route, dn, arg, S.pid, Cr.pid, g, d.pidOfAddr(owner), ok), line())
			}
			r.Stat("dnh:denom-state-changed")
		}
		d.checkConfirms(cfBefore, line())
		r.Stat("dnh:" + kind + ":" + res)
		if route == "w" {
			r.Stat("dnh:route-wasm")
			if (kind == "setmeta" || withMeta) && baseTok == 3-dn {
				r.Stat("dnh:wasm-base-names-other-denom")
				if !pre[3-dn].exists {
					r.Stat("dnh:wasm-base-names-other-denom-not-yet-created")
				}
				if S.pid == cur[dn] || kind == "create" && S.pid == namesake[dn].pid {
					r.Stat("dnh:wasm-base-names-other-denom-by-admin")
				}
			}
		}
		if dn == 2 {
			r.Stat("dnh:second-denom")
		}
		if recreate {
			r.Stat("dnh:recreate")
			if pre[dn].comp["supply"] == "0" {
				r.Stat("dnh:recreate-supply-zero")
			}
			if cur[dn] != namesake[dn].pid {
				r.Stat("dnh:recreate-after-hand-over")
				if pre[dn].comp["supply"] == "0" {
					r.Stat("dnh:recreate-after-hand-over-supply-zero")
				}
			}
			if route == "w" {
				r.Stat("dnh:recreate-by-binding")
			}
		}
		switch {
		case cur[dn] > 1 && S.pid == cur[dn] && Cr.pid == cur[dn]:
			r.Stat("dnh:by-current-admin")
		case S.pid != cur[dn] && func() bool {
			for _, f := range former[dn] {
				if f == S.pid {
					return true
				}
			}
			return false
		}():
			r.Stat("dnh:by-former-admin-or-creator")
		}
		if g {
			rv := feegrant.NewMsgRevokeAllowance(Cr.acc.Addr, S.acc.Addr)
			if gr := fa.DeliverTx(Cr.acc, &rv); !gr.OK() {
				d.t.Fatalf("revoke: %s %s", gr.Log, gr.BlockErr)
			}
			delete(d.grants, [2]int{Cr.pid, S.pid})
		}
		if kind == "chadmin" && ok && pre[dn].admin != post[dn].admin && (rng.Intn(100) < 35 || post[dn].admin == "" && rng.Intn(2) == 0) {
			wantReimport = true // a restart right after a hand-over / renouncement
		}
		if kind == "chadmin" && ok && pre[dn].admin != post[dn].admin && post[dn].admin != namesake[dn].acc.Addr.String() && rng.Intn(100) < 45 {
			wantRecreate[dn] = true // the account in the name tries to take the denom back by creating it again
		}
		track(post)
	}
	r.Op(line(), strings.Join(outs, ","))
	r.Stat("sc:denom-history")
	r.Case(line(), nontrivial)
}

// ---- batch confirmations -------------------------------------------------------------

type c03ConfirmSnap struct {
	confirms map[string]string // hex(key below the BatchConfirmKey prefix) -> hex(value)
	regKeys  map[string]string // validator account bech32 -> registered eth address on ZooChain (lower case)
}

func (d *c03Dir) regKey(ctx sdk.Context, acc sdk.AccAddress, chain string) string {
	infos, err := d.w.FA.App().ValsetKeeper.GetValidatorChainInfos(ctx, sdk.ValAddress(acc))
	if err != nil {
		return ""
	}
	for _, ci := range infos {
		if ci != nil && ci.GetChainReferenceID() == chain {
			return strings.ToLower(ci.GetAddress())
		}
	}
	return ""
}

func (d *c03Dir) confirmSnapshot() c03ConfirmSnap {
	s := c03ConfirmSnap{confirms: map[string]string{}, regKeys: map[string]string{}}
	ctx := d.w.FA.CtxCached()
	d.w.FA.App().SkywayKeeper.IterateBatchConfirms(ctx, func(key []byte, cf skywaytypes.MsgConfirmBatch) bool {
		bz, err := cf.Marshal()
		if err != nil {
			bz = []byte(err.Error())
		}
		s.confirms[hex.EncodeToString(key)] = hex.EncodeToString(bz)
		return false
	})
	for _, v := range d.w.FA.Vals {
		s.regKeys[v.Addr.String()] = d.regKey(ctx, v.Addr, ZooChain)
	}
	return s
}

// c03Recover: address whose key made sig over item (EIP-191 personal message over the 32-byte
// checkpoint, v in {0,1,27,28}); go-ethereum only.
func c03Recover(item, sig []byte) (ethcommon.Address, bool) {
	if len(sig) != 65 {
		return ethcommon.Address{}, false
	}
	s := append([]byte(nil), sig...)
	if s[64] == 27 || s[64] == 28 {
		s[64] -= 27
	}
	h := ethcrypto.Keccak256(append([]byte("\x19Ethereum Signed Message:\n32"), item...))
	pub, err := ethcrypto.SigToPub(h, s)
	if err != nil || pub == nil {
		return ethcommon.Address{}, false
	}
	return ethcrypto.PubkeyToAddress(*pub), true
}

// checkConfirms evaluates, for every batch confirmation that appeared or changed since `before`:
// it is filed under a validator V, names V's registered key and carries V's key's signature over
// exactly the batch's checkpoint.
func (d *c03Dir) checkConfirms(before c03ConfirmSnap, input string) {
	after := d.confirmSnapshot()
	a := d.w.FA.App()
	ctx := d.w.FA.CtxCached()
	var keys []string
	for k, v := range after.confirms {
		if before.confirms[k] != v {
			keys = append(keys, k)
		}
	}
	sort.Strings(keys)
	for _, k := range keys {
		d.r.Stat("confirm-stored")
		kb, _ := hex.DecodeString(k)
		vb, _ := hex.DecodeString(after.confirms[k])
		var cf skywaytypes.MsgConfirmBatch
		if err := a.AppCodec().Unmarshal(vb, &cf); err != nil || len(kb) < 20 {
			d.r.Hit("confirm-not-validators-own-signature", "undecodable batch confirmation "+k, input)
			continue
		}
		filed := sdk.AccAddress(kb[len(kb)-20:])
		who := fmt.Sprintf("principal %d", d.pidOfAddr(filed.String()))
		bad := func(why string) {
			d.r.Hit("confirm-not-validators-own-signature", fmt.Sprintf("batch confirmation (nonce %d) filed under %s: %s", cf.Nonce, who, why), input)
		}
		if cf.Orchestrator != filed.String() {
			bad("its orchestrator field names somebody else")
			continue
		}
		contract, err := skywaytypes.NewEthAddress(cf.TokenContract)
		if err != nil {
			bad("token contract undecodable")
			continue
		}
		batch, err := a.SkywayKeeper.GetOutgoingTXBatch(ctx, *contract, cf.Nonce)
		if err != nil || batch == nil {
			bad("there is no such batch")
			continue
		}
		ci, err := a.EvmKeeper.GetChainInfo(ctx, batch.ChainReferenceID)
		if err != nil {
			bad("the batch's chain is unknown")
			continue
		}
		item, err := batch.GetCheckpoint(string(ci.SmartContractUniqueID))
		if err != nil {
			bad("no checkpoint: " + err.Error())
			continue
		}
		reg := []string{d.regKey(ctx, filed, batch.ChainReferenceID)}
		if pre, ok := before.regKeys[filed.String()]; ok && batch.ChainReferenceID == ZooChain && pre != reg[0] {
			reg = append(reg, pre)
		}
		sig, _ := hex.DecodeString(cf.Signature)
		rec, okRec := c03Recover(item, sig)
		backed := false
		for _, k := range reg {
			if k != "" && ethcommon.IsHexAddress(k) && ethcommon.IsHexAddress(cf.EthSigner) &&
				ethcommon.HexToAddress(k) == ethcommon.HexToAddress(cf.EthSigner) && okRec && rec == ethcommon.HexToAddress(k) {
				backed = true
			}
		}
		if !backed {
			recS := "nothing"
			if okRec {
				recS = fmt.Sprintf("the key of principal %d", d.byEth[strings.ToLower(rec.Hex())])
			}
			bad(fmt.Sprintf("not backed by that validator's own external-chain signature over the batch checkpoint (registered key %v = key of principal %d, eth_signer = key of principal %d, signature recovers to %s)",
				reg, d.byEth[reg[0]], d.byEth[strings.ToLower(cf.EthSigner)], recS))
		}
	}
}

// freshBatch builds a new outgoing batch nobody has confirmed yet.
func (d *c03Dir) freshBatch() (nonce uint64, cp, wrongDomain []byte, ok bool) {
	w := d.w
	a := w.FA.App()
	err := w.God(func(ctx sdk.Context) error {
		dest, _ := skywaytypes.NewEthAddress("0x00000000000000000000000000000000000000D5")
		if _, err := a.SkywayKeeper.AddToOutgoingPool(ctx, w.FA.User(2).Addr, *dest, sdk.NewInt64Coin(FABondDenom, 900+int64(w.next())), ZooChain); err != nil {
			return err
		}
		b, err := a.SkywayKeeper.BuildOutgoingTXBatch(ctx, ZooChain, zooBridgeContract(), 1)
		if err != nil {
			return err
		}
		if b == nil {
			return fmt.Errorf("no batch built")
		}
		ci, err := a.EvmKeeper.GetChainInfo(ctx, ZooChain)
		if err != nil {
			return err
		}
		nonce = b.BatchNonce
		if cp, err = b.GetCheckpoint(string(ci.SmartContractUniqueID)); err != nil {
			return err
		}
		wrongDomain, err = b.GetCheckpoint("another-compass")
		return err
	})
	if err != nil {
		d.t.Logf("C03: freshBatch: %v", err)
		return 0, nil, nil, false
	}
	return nonce, cp, wrongDomain, true
}

// confirmHistory: one `cbh` line.
func (d *c03Dir) confirmHistory() {
	w, fa, rng, r := d.w, d.w.FA, d.rng, d.r
	a := fa.App()
	nonce, cp, wrongDomain, ok := d.freshBatch()
	if !ok {
		r.Stat("cbh:no-batch")
		return
	}
	otherCP := d.prevCP
	if otherCP == nil {
		otherCP = wrongDomain
	}
	d.prevCP = cp
	ctx0 := fa.CtxCached()
	var keyToks []string
	for _, v := range d.vals {
		k := d.byEth[d.regKey(ctx0, v.acc.Addr, ZooChain)]
		val, err := a.StakingKeeper.GetValidator(ctx0, v.acc.ValAddr())
		if err != nil || !(val.IsBonded() || val.IsUnbonding()) {
			k = 0 // confirmations of unbonded validators are refused
		}
		keyToks = append(keyToks, fmt.Sprintf("%d:%d", v.pid, k))
	}
	pickVal := func(not ...int) c03Principal {
		for {
			p := d.vals[rng.Intn(len(d.vals))]
			okp := true
			for _, n := range not {
				if n == p.pid {
					okp = false
				}
			}
			if okp {
				return p
			}
		}
	}
	var toks, outs []string
	line := func() string { return fmt.Sprintf("cbh %s %s", strings.Join(keyToks, ","), strings.Join(toks, " ")) }
	steps := 3 + rng.Intn(4)
	nontrivial := false
	for i := 0; i < steps; i++ {
		O := pickVal()
		S, E, K := O, O, O // sender, eth signer (whose address is named), signing key
		tgt, item := "b", "b"
		Cr, g := c03Principal{}, false
		garbage := false
		x := rng.Intn(100)
		switch {
		case x < 20: // what pigeon sends
			r.Stat("cbh:honest")
		case x < 35: // somebody else relays the validator's own signature
			if rng.Intn(2) == 0 {
				S = pickVal(O.pid)
			} else {
				S = d.users[rng.Intn(len(d.users))]
			}
			r.Stat("cbh:relayed")
		case x < 60: // filed under O, everything else (key, signature, sender) is S's own
			S = pickVal(O.pid)
			E, K = S, S
			r.Stat("cbh:other-orchestrator-own-signature")
		case x < 70:
			S = pickVal(O.pid)
			K = S // O's address named, S's signature
			r.Stat("cbh:crossed-key")
		case x < 75:
			S = pickVal(O.pid)
			E = S // S's address named, O's signature
			r.Stat("cbh:crossed-signer")
		case x < 85: // the right key over the wrong item
			item = []string{"o", "w"}[rng.Intn(2)]
			if rng.Intn(2) == 0 {
				S = pickVal(O.pid)
			}
			r.Stat("cbh:wrong-item")
		case x < 90: // filed under an account that is no validator
			O = d.users[rng.Intn(len(d.users))]
			S = O
			E = pickVal()
			K = E
			if rng.Intn(2) == 0 {
				S = E
			}
			r.Stat("cbh:non-validator")
		case x < 93:
			tgt = "n"
			r.Stat("cbh:no-such-batch")
		case x < 97:
			garbage = true
			r.Stat("cbh:garbage-signature")
		default: // the ante chain: in O's name without / with a fee grant
			S = pickVal(O.pid)
			Cr, g = O, rng.Intn(2) == 0
			if rng.Intn(2) == 0 {
				E, K = S, S
			}
			r.Stat("cbh:in-orchestrators-name")
		}
		if Cr.acc == nil {
			Cr = S
		}
		form := 0
		if rng.Intn(10) < 3 {
			form = 27
		}
		signed := map[string][]byte{"b": cp, "o": otherCP, "w": wrongDomain}[item]
		var sig []byte
		kTok := fmt.Sprint(K.pid)
		if garbage {
			sig = make([]byte, 65)
			rng.Read(sig)
			sig[64] = byte(rng.Intn(2))
			kTok = "0"
		} else {
			var err error
			if sig, err = ethcrypto.Sign(ethcrypto.Keccak256(append([]byte("\x19Ethereum Signed Message:\n32"), signed...)), K.acc.EthPriv); err != nil {
				d.t.Fatalf("sign: %v", err)
			}
		}
		sig[64] += byte(form)
		n := nonce
		if tgt == "n" {
			n = nonce + 1_000_000
		}
		msg := &skywaytypes.MsgConfirmBatch{Nonce: n, TokenContract: ZooBridgeERC20, EthSigner: E.acc.EthAddr.Hex(), Orchestrator: O.acc.Addr.String(),
			Signature: hex.EncodeToString(sig)}
		if g {
			if gr := fa.GrantFee(Cr.acc, S.acc); !gr.OK() {
				d.t.Fatalf("grant: %s %s", gr.Log, gr.BlockErr)
			}
			d.grants[[2]int{Cr.pid, S.pid}] = true
		}
		before := d.confirmSnapshot()
		res := w.Deliver(S.acc, Cr.acc, msg)
		toks = append(toks, fmt.Sprintf("%d;%d;%d;%d;%d;%s;%s;%s;%d", S.pid, Cr.pid, map[bool]int{false: 0, true: 1}[g], O.pid, E.pid, kTok, tgt, item, form))
		d.checkConfirms(before, line())
		if res.OK() {
			outs = append(outs, "ok")
			nontrivial = true
			r.Stat("cbh:ok")
		} else {
			outs = append(outs, "rej")
			r.Stat("cbh:rej")
		}
		if form == 27 {
			r.Stat("cbh:v27")
		}
		if g {
			rv := feegrant.NewMsgRevokeAllowance(Cr.acc.Addr, S.acc.Addr)
			if gr := fa.DeliverTx(Cr.acc, &rv); !gr.OK() {
				d.t.Fatalf("revoke: %s %s", gr.Log, gr.BlockErr)
			}
			delete(d.grants, [2]int{Cr.pid, S.pid})
		}
	}
	// the confirmation set of the batch as the chain has it: <filed under>/<key named>
	var set []string
	if confs, err := a.SkywayKeeper.GetBatchConfirmByNonceAndTokenContract(fa.CtxCached(), nonce, zooBridgeContract()); err == nil {
		for _, c := range confs {
			k := d.byEth[strings.ToLower(c.EthSigner)]
			if k == 0 {
				k = 1
			}
			set = append(set, fmt.Sprintf("%d/%d", d.pidOfAddr(c.Orchestrator), k))
		}
	}
	sort.Strings(set)
	fin := "-"
	if len(set) > 0 {
		fin = strings.Join(set, ",")
	}
	r.Op(line(), strings.Join(outs, ",")+"|"+fin)
	r.Stat("sc:confirm-history")
	r.Case(line(), nontrivial)
}

// TestC03SharedKey replays, on the real application, the counterexample the formal side proves
// for the batch-confirmation model (Props/C03.lean `registered_accounts_not_injective`,
// `shared_account_confirms_once`): the collision rule of valset.SetExternalChainInfoState compares
// address STRINGS while ConfirmBatch compares parsed 20-byte accounts, so validator A can register
// validator B's EVM address in another spelling; a signature made by B's key over a batch is then
// accepted under orchestrator A, and B's own confirmation of that batch is refused afterwards
// (one confirmation per key).  Not run by ./check (it is a directed replay, not a generator);
// it FAILS if the implementation stops behaving like the model at this point.
func TestC03SharedKey(t *testing.T) {
	w := NewZooWorld(t, 1)
	fa := w.FA
	A, B := fa.Vals[0], fa.Vals[1]
	lower := strings.ToLower(zooEthHex(B))
	upper := "0x" + strings.ToUpper(zooEthHex(B)[2:])
	other := upper
	if other == zooEthHex(B) {
		other = lower
	}
	if other == zooEthHex(B) {
		t.Skip("B's address has no hex letters: only one spelling")
	}
	reg := &valsettypes.MsgAddExternalChainInfoForValidator{ChainInfos: []*valsettypes.ExternalChainInfo{
		{ChainType: FAEvmChainType, ChainReferenceID: ZooChain, Address: other, Pubkey: zooAccBytes(zooEthHex(A))},
	}, Metadata: FAMeta(A.Addr, A.Addr)}
	if r := w.Deliver(A, A, reg); !r.OK() {
		t.Fatalf("model says the registration of %s (B holds %s) is accepted, the chain refused it: %s", other, zooEthHex(B), r.Log)
	}
	// the exact string IS refused
	regSame := &valsettypes.MsgAddExternalChainInfoForValidator{ChainInfos: []*valsettypes.ExternalChainInfo{
		{ChainType: FAEvmChainType, ChainReferenceID: ZooChain, Address: zooEthHex(B), Pubkey: zooAccBytes(zooEthHex(A))},
	}, Metadata: FAMeta(A.Addr, A.Addr)}
	if r := w.Deliver(A, A, regSame); r.OK() {
		t.Fatalf("model says the registration of B's exact address string by A is refused, the chain accepted it")
	}
	d := &c03Dir{t: t, w: w}
	nonce, cp, _, ok := d.freshBatch()
	if !ok {
		t.Fatalf("no batch")
	}
	sig, err := ethcrypto.Sign(ethcrypto.Keccak256(append([]byte("\x19Ethereum Signed Message:\n32"), cp...)), B.EthPriv)
	if err != nil {
		t.Fatal(err)
	}
	confirm := func(sender, orch *FAAccount) FATxResult {
		return w.Deliver(sender, sender, &skywaytypes.MsgConfirmBatch{Nonce: nonce, TokenContract: ZooBridgeERC20,
			EthSigner: zooEthHex(B), Orchestrator: orch.Addr.String(), Signature: hex.EncodeToString(sig)})
	}
	// B's signature, relayed by A, filed under A
	if r := confirm(A, A); !r.OK() {
		t.Fatalf("model says B's signature is accepted under orchestrator A (A registered B's account), the chain refused: %s", r.Log)
	}
	// B's own confirmation of the same batch is now refused: one confirmation per key
	if r := confirm(B, B); r.OK() {
		t.Fatalf("model says B's own confirmation is refused after its key confirmed under A, the chain accepted it")
	}
	confs, err := fa.App().SkywayKeeper.GetBatchConfirmByNonceAndTokenContract(fa.CtxCached(), nonce, zooBridgeContract())
	if err != nil {
		t.Fatal(err)
	}
	if len(confs) != 1 || confs[0].Orchestrator != A.Addr.String() {
		t.Fatalf("model says exactly one confirmation, filed under A; the chain has %v", confs)
	}
	t.Logf("C03 shared key: A=%s registered %s (B holds %s); B's signature stored under A, B's own confirmation refused", A.Addr, other, zooEthHex(B))
}
