module verif/harness

go 1.23.5

require (
	cosmossdk.io/errors v1.0.1
	github.com/CosmWasm/wasmd v0.53.0
	github.com/VolumeFi/whoops v0.7.2
	github.com/cometbft/cometbft v0.38.12
	github.com/cometbft/cometbft-db v0.11.0 // indirect
	github.com/cosmos/cosmos-proto v1.0.0-beta.5
	github.com/cosmos/cosmos-sdk v0.50.13
	github.com/cosmos/gogoproto v1.7.0
	github.com/gogo/protobuf v1.3.2
	github.com/gorilla/mux v1.8.1
	github.com/grpc-ecosystem/grpc-gateway v1.16.0
	github.com/huandu/skiplist v1.2.0
	github.com/onsi/gomega v1.33.1
	github.com/sirupsen/logrus v1.9.3 // indirect
	github.com/spf13/cast v1.7.1
	github.com/spf13/cobra v1.8.1
	github.com/spf13/pflag v1.0.5
	github.com/spf13/viper v1.19.0
	github.com/stretchr/testify v1.10.0
	golang.org/x/exp v0.0.0-20240404231335-c0f41cb1a7a0
	google.golang.org/genproto/googleapis/api v0.0.0-20240814211410-ddb44dafa142
	google.golang.org/grpc v1.67.1
	google.golang.org/protobuf v1.35.1
	gopkg.in/yaml.v2 v2.4.0
)

require (
	cosmossdk.io/api v0.7.6
	cosmossdk.io/client/v2 v2.0.0-beta.1
	cosmossdk.io/core v0.11.1
	cosmossdk.io/log v1.4.1
	cosmossdk.io/math v1.4.0
	cosmossdk.io/store v1.1.1
	cosmossdk.io/tools/confix v0.1.2
	cosmossdk.io/x/evidence v0.1.1
	cosmossdk.io/x/feegrant v0.1.1
	cosmossdk.io/x/tx v0.13.7
	cosmossdk.io/x/upgrade v0.1.4
	github.com/CosmWasm/wasmvm/v2 v2.1.3
	github.com/cosmos/cosmos-db v1.1.1
	github.com/cosmos/ibc-go/modules/capability v1.0.1
	github.com/cosmos/ibc-go/v8 v8.4.0
	github.com/ethereum/go-ethereum v1.13.15
	github.com/golang/protobuf v1.5.4
	github.com/hashicorp/go-metrics v0.5.3
	github.com/onsi/ginkgo/v2 v2.17.2
	golang.org/x/mod v0.19.0
)

require (
	cloud.google.com/go v0.112.1 // indirect
	cloud.google.com/go/compute/metadata v0.5.0 // indirect
	cloud.google.com/go/iam v1.1.6 // indirect
	cloud.google.com/go/storage v1.38.0 // indirect
	cosmossdk.io/collections v0.4.0 // indirect
	cosmossdk.io/depinject v1.1.0 // indirect
	cosmossdk.io/x/circuit v0.1.1 // indirect
	cosmossdk.io/x/nft v0.1.1 // indirect
	filippo.io/edwards25519 v1.0.0 // indirect
	github.com/99designs/go-keychain v0.0.0-20191008050251-8e49817e8af4 // indirect
	github.com/99designs/keyring v1.2.1 // indirect
	github.com/DataDog/datadog-go v3.2.0+incompatible // indirect
	github.com/DataDog/zstd v1.5.5 // indirect
	github.com/Microsoft/go-winio v0.6.1 // indirect
	github.com/StackExchange/wmi v1.2.1 // indirect
	github.com/VictoriaMetrics/fastcache v1.12.1 // indirect
	github.com/aws/aws-sdk-go v1.44.224 // indirect
	github.com/beorn7/perks v1.0.1 // indirect
	github.com/bgentry/go-netrc v0.0.0-20140422174119-9fd32a8b3d3d // indirect
	github.com/bgentry/speakeasy v0.1.1-0.20220910012023-760eaf8b6816 // indirect
	github.com/bits-and-blooms/bitset v1.10.0 // indirect
	github.com/btcsuite/btcd/btcec/v2 v2.3.4 // indirect
	github.com/cenkalti/backoff/v4 v4.1.3 // indirect
	github.com/cespare/xxhash v1.1.0 // indirect
	github.com/cespare/xxhash/v2 v2.3.0 // indirect
	github.com/chzyer/readline v1.5.1 // indirect
	github.com/cockroachdb/apd/v2 v2.0.2 // indirect
	github.com/cockroachdb/errors v1.11.3 // indirect
	github.com/cockroachdb/logtags v0.0.0-20230118201751-21c54148d20b // indirect
	github.com/cockroachdb/pebble v1.1.2 // indirect
	github.com/cockroachdb/redact v1.1.5 // indirect
	github.com/cockroachdb/tokenbucket v0.0.0-20230807174530-cc333fc44b06 // indirect
	github.com/consensys/bavard v0.1.13 // indirect
	github.com/consensys/gnark-crypto v0.12.1 // indirect
	github.com/cosmos/btcutil v1.0.5 // indirect
	github.com/cosmos/go-bip39 v1.0.0 // indirect
	github.com/cosmos/gogogateway v1.2.0 // indirect
	github.com/cosmos/iavl v1.2.2 // indirect
	github.com/cosmos/ibc-go/modules/apps/callbacks v0.2.1-0.20231113120333-342c00b0f8bd // indirect
	github.com/cosmos/ics23/go v0.11.0 // indirect
	github.com/cosmos/ledger-cosmos-go v0.14.0 // indirect
	github.com/crate-crypto/go-ipa v0.0.0-20231025140028-3c0104f4b233 // indirect
	github.com/crate-crypto/go-kzg-4844 v0.7.0 // indirect
	github.com/creachadair/atomicfile v0.3.1 // indirect
	github.com/creachadair/tomledit v0.0.24 // indirect
	github.com/danieljoos/wincred v1.1.2 // indirect
	github.com/davecgh/go-spew v1.1.2-0.20180830191138-d8f796af33cc // indirect
	github.com/deckarep/golang-set/v2 v2.1.0 // indirect
	github.com/decred/dcrd/dcrec/secp256k1/v4 v4.2.0 // indirect
	github.com/desertbit/timer v0.0.0-20180107155436-c41aec40b27f // indirect
	github.com/dgraph-io/badger/v2 v2.2007.4 // indirect
	github.com/dgraph-io/ristretto v0.1.1 // indirect
	github.com/dgryski/go-farm v0.0.0-20200201041132-a6ae2369ad13 // indirect
	github.com/distribution/reference v0.5.0 // indirect
	github.com/dustin/go-humanize v1.0.1 // indirect
	github.com/dvsekhvalnov/jose2go v1.6.0 // indirect
	github.com/emicklei/dot v1.6.2 // indirect
	github.com/ethereum/c-kzg-4844 v0.4.0 // indirect
	github.com/fatih/color v1.15.0 // indirect
	github.com/felixge/httpsnoop v1.0.4 // indirect
	github.com/fsnotify/fsnotify v1.7.0 // indirect
	github.com/gballet/go-verkle v0.1.1-0.20231031103413-a67434b50f46 // indirect
	github.com/getsentry/sentry-go v0.27.0 // indirect
	github.com/go-kit/kit v0.12.0 // indirect
	github.com/go-kit/log v0.2.1 // indirect
	github.com/go-logfmt/logfmt v0.6.0 // indirect
	github.com/go-logr/logr v1.4.1 // indirect
	github.com/go-logr/stdr v1.2.2 // indirect
	github.com/go-ole/go-ole v1.3.0 // indirect
	github.com/go-task/slim-sprig/v3 v3.0.0 // indirect
	github.com/godbus/dbus v0.0.0-20190726142602-4481cbc300e2 // indirect
	github.com/gofrs/flock v0.8.1 // indirect
	github.com/gogo/googleapis v1.4.1 // indirect
	github.com/golang/glog v1.2.2 // indirect
	github.com/golang/groupcache v0.0.0-20210331224755-41bb18bfe9da // indirect
	github.com/golang/mock v1.6.0 // indirect
	github.com/golang/snappy v0.0.5-0.20220116011046-fa5810519dcb // indirect
	github.com/google/btree v1.1.3 // indirect
	github.com/google/go-cmp v0.6.0 // indirect
	github.com/google/gofuzz v1.2.0 // indirect
	github.com/google/orderedcode v0.0.1 // indirect
	github.com/google/pprof v0.0.0-20240424215950-a892ee059fd6 // indirect
	github.com/google/s2a-go v0.1.7 // indirect
	github.com/google/uuid v1.6.0 // indirect
	github.com/googleapis/enterprise-certificate-proxy v0.3.2 // indirect
	github.com/googleapis/gax-go/v2 v2.12.3 // indirect
	github.com/gorilla/handlers v1.5.2 // indirect
	github.com/gorilla/websocket v1.5.3 // indirect
	github.com/grpc-ecosystem/go-grpc-middleware v1.4.0 // indirect
	github.com/gsterjov/go-libsecret v0.0.0-20161001094733-a6f4afe4910c // indirect
	github.com/hashicorp/go-cleanhttp v0.5.2 // indirect
	github.com/hashicorp/go-getter v1.7.5 // indirect
	github.com/hashicorp/go-hclog v1.5.0 // indirect
	github.com/hashicorp/go-immutable-radix v1.3.1 // indirect
	github.com/hashicorp/go-plugin v1.5.2 // indirect
	github.com/hashicorp/go-safetemp v1.0.0 // indirect
	github.com/hashicorp/go-version v1.6.0 // indirect
	github.com/hashicorp/golang-lru v1.0.2 // indirect
	github.com/hashicorp/golang-lru/v2 v2.0.7 // indirect
	github.com/hashicorp/hcl v1.0.0 // indirect
	github.com/hashicorp/yamux v0.1.1 // indirect
	github.com/hdevalence/ed25519consensus v0.1.0 // indirect
	github.com/holiman/bloomfilter/v2 v2.0.3 // indirect
	github.com/holiman/uint256 v1.2.4 // indirect
	github.com/iancoleman/strcase v0.3.0 // indirect
	github.com/improbable-eng/grpc-web v0.15.0 // indirect
	github.com/inconshreveable/mousetrap v1.1.0 // indirect
	github.com/jmespath/go-jmespath v0.4.0 // indirect
	github.com/jmhodges/levigo v1.0.0 // indirect
	github.com/klauspost/compress v1.17.9 // indirect
	github.com/kr/pretty v0.3.1 // indirect
	github.com/kr/text v0.2.0 // indirect
	github.com/lib/pq v1.10.7 // indirect
	github.com/linxGnu/grocksdb v1.8.14 // indirect
	github.com/magiconair/properties v1.8.7 // indirect
	github.com/manifoldco/promptui v0.9.0 // indirect
	github.com/mattn/go-colorable v0.1.13 // indirect
	github.com/mattn/go-isatty v0.0.20 // indirect
	github.com/mattn/go-runewidth v0.0.13 // indirect
	github.com/minio/highwayhash v1.0.2 // indirect
	github.com/mitchellh/go-homedir v1.1.0 // indirect
	github.com/mitchellh/go-testing-interface v1.14.1 // indirect
	github.com/mitchellh/mapstructure v1.5.0 // indirect
	github.com/mmcloughlin/addchain v0.4.0 // indirect
	github.com/mtibben/percent v0.2.1 // indirect
	github.com/munnerz/goautoneg v0.0.0-20191010083416-a7dc8b61c822 // indirect
	github.com/oasisprotocol/curve25519-voi v0.0.0-20230904125328-1f23a7beb09a // indirect
	github.com/oklog/run v1.1.0 // indirect
	github.com/olekukonko/tablewriter v0.0.5 // indirect
	github.com/opencontainers/go-digest v1.0.0 // indirect
	github.com/pelletier/go-toml/v2 v2.2.2 // indirect
	github.com/petermattis/goid v0.0.0-20231207134359-e60b3f734c67 // indirect
	github.com/pkg/errors v0.9.1 // indirect
	github.com/pmezard/go-difflib v1.0.1-0.20181226105442-5d4384ee4fb2 // indirect
	github.com/prometheus/client_golang v1.20.1 // indirect
	github.com/prometheus/client_model v0.6.1 // indirect
	github.com/prometheus/common v0.55.0 // indirect
	github.com/prometheus/procfs v0.15.1 // indirect
	github.com/rcrowley/go-metrics v0.0.0-20201227073835-cf1acfcdf475 // indirect
	github.com/rivo/uniseg v0.2.0 // indirect
	github.com/rogpeppe/go-internal v1.12.0 // indirect
	github.com/rs/cors v1.11.1 // indirect
	github.com/rs/zerolog v1.33.0 // indirect
	github.com/sagikazarmark/locafero v0.4.0 // indirect
	github.com/sagikazarmark/slog-shim v0.1.0 // indirect
	github.com/sasha-s/go-deadlock v0.3.1 // indirect
	github.com/shamaton/msgpack/v2 v2.2.0 // indirect
	github.com/shirou/gopsutil v3.21.4-0.20210419000835-c7a38de76ee5+incompatible // indirect
	github.com/sourcegraph/conc v0.3.0 // indirect
	github.com/spf13/afero v1.11.0 // indirect
	github.com/stretchr/objx v0.5.2 // indirect
	github.com/subosito/gotenv v1.6.0 // indirect
	github.com/supranational/blst v0.3.11 // indirect
	github.com/syndtr/goleveldb v1.0.1-0.20220721030215-126854af5e6d // indirect
	github.com/tendermint/go-amino v0.16.0 // indirect
	github.com/tidwall/btree v1.7.0 // indirect
	github.com/tklauser/go-sysconf v0.3.12 // indirect
	github.com/tklauser/numcpus v0.6.1 // indirect
	github.com/ulikunitz/xz v0.5.11 // indirect
	github.com/zondax/hid v0.9.2 // indirect
	github.com/zondax/ledger-go v0.14.3 // indirect
	go.etcd.io/bbolt v1.3.10 // indirect
	go.opencensus.io v0.24.0 // indirect
	go.opentelemetry.io/contrib/instrumentation/google.golang.org/grpc/otelgrpc v0.49.0 // indirect
	go.opentelemetry.io/contrib/instrumentation/net/http/otelhttp v0.49.0 // indirect
	go.opentelemetry.io/otel v1.24.0 // indirect
	go.opentelemetry.io/otel/metric v1.24.0 // indirect
	go.opentelemetry.io/otel/trace v1.24.0 // indirect
	go.uber.org/multierr v1.11.0 // indirect
	golang.org/x/crypto v0.27.0 // indirect
	golang.org/x/net v0.29.0 // indirect
	golang.org/x/oauth2 v0.22.0 // indirect
	golang.org/x/sync v0.8.0 // indirect
	golang.org/x/sys v0.25.0 // indirect
	golang.org/x/term v0.24.0 // indirect
	golang.org/x/text v0.18.0 // indirect
	golang.org/x/time v0.5.0 // indirect
	golang.org/x/tools v0.23.0 // indirect
	google.golang.org/api v0.171.0 // indirect
	google.golang.org/genproto v0.0.0-20240227224415-6ceb2ff114de // indirect
	google.golang.org/genproto/googleapis/rpc v0.0.0-20240930140551-af27646dc61f // indirect
	gopkg.in/ini.v1 v1.67.0 // indirect
	gopkg.in/yaml.v3 v3.0.1 // indirect
	gotest.tools/v3 v3.5.1 // indirect
	nhooyr.io/websocket v1.8.6 // indirect
	pgregory.net/rapid v1.1.0 // indirect
	rsc.io/tmplfunc v0.0.3 // indirect
	sigs.k8s.io/yaml v1.4.0 // indirect
)

replace (
	// use cosmos fork of keyring
	github.com/99designs/keyring => github.com/cosmos/keyring v1.2.0
	// TODO: This is to fix  the issue
	//(../../go/pkg/mod/github.com/ethereum/go-ethereum@v1.13.13/ethdb/pebble/pebble.go:592:21
	//assignment mismatch: 4 variables but reader.Next returns 5 values)
	github.com/cockroachdb/pebble => github.com/cockroachdb/pebble v0.0.0-20230928194634-aa077af62593
	// dgrijalva/jwt-go is deprecated and doesn't receive security updates.
	// TODO: remove it: https://github.com/cosmos/cosmos-sdk/issues/13134
	// Link to op-geth, which is built on top of go-ethereum
	github.com/gin-gonic/gin => github.com/gin-gonic/gin v1.9.1
	// Downgraded to avoid bugs in following commits which caused simulations to fail.
	github.com/syndtr/goleveldb => github.com/syndtr/goleveldb v1.0.1-0.20210819022825-2ae1ddf74ef7
)

require github.com/palomachain/paloma/v2 v2.0.0

replace github.com/palomachain/paloma/v2 => /repo
