//go:build verif

package harness

import (
	"bytes"
	"fmt"
	"math/big"
	"testing"
	"time"

	sdkmath "cosmossdk.io/math"
	sdk "github.com/cosmos/cosmos-sdk/types"
	banktypes "github.com/cosmos/cosmos-sdk/x/bank/types"
	ethcrypto "github.com/ethereum/go-ethereum/crypto"
	evmkeeper "github.com/palomachain/paloma/v2/x/evm/keeper"
	tokenfactorytypes "github.com/palomachain/paloma/v2/x/tokenfactory/types"
	treasurytypes "github.com/palomachain/paloma/v2/x/treasury/types"
	valsettypes "github.com/palomachain/paloma/v2/x/valset/types"
)

// ---------------------------------------------------------------------------
// EVM / skyway chain bootstrap.  Everything here calls keepers directly inside
// WithDeliverCtx (i.e. on the FinalizeBlock state of a real block, before
// BeginBlock) so the changes are committed and hashed like any other write.
// ---------------------------------------------------------------------------

// FAEvmChain describes an external chain to register.  Zero fields get defaults.
type FAEvmChain struct {
	RefID       string // e.g. "test-chain"
	ChainID     uint64 // must be unique per chain; default 1337
	BlockHeight uint64 // reference block; default 100
	BlockHash   string // default 0x12..
	MinBalance  *big.Int
	// Compass (smart contract) record the chain is activated with.
	ABI         string // default "[]"
	Bytecode    []byte // default {0x01}
	CompassAddr string // default 0x..C0
	UniqueID    []byte // default "compass-"+RefID
	FeeManager  string // default 0x..FE
	// FeeMultiplicator for every validator's relayer fee; default "1.1".
	FeeMultiplicator string
	// Inactive: add support only, do not activate.
	Inactive bool
	// SkipValidators: do not register validator accounts / fees / metrics.
	SkipValidators bool
	// SkipSnapshot: do not call TriggerSnapshotBuild at the end.
	SkipSnapshot bool
}

// FAEvmChainType is the chain type string of EVM chains in valset/consensus.
const FAEvmChainType = "evm"

// ActivateEVMChain registers c in one block: AddSupportForNewChain,
// SetFeeManagerAddress, validator external accounts + relayer fees,
// SaveNewSmartContract + ActivateChainReferenceID + SetAsCompassContract,
// metrix uptime records and a valset snapshot (which publishes an UpdateValset
// message to the chain's consensus queue).
func (fa *FullApp) ActivateEVMChain(c FAEvmChain) (FABlockResult, error) {
	if c.ChainID == 0 {
		c.ChainID = 1337
	}
	if c.BlockHeight == 0 {
		c.BlockHeight = 100
	}
	if c.BlockHash == "" {
		c.BlockHash = "0x1234567890123456789012345678901234567890123456789012345678901234"
	}
	if c.MinBalance == nil {
		c.MinBalance = big.NewInt(0)
	}
	if c.ABI == "" {
		c.ABI = "[]"
	}
	if c.Bytecode == nil {
		c.Bytecode = []byte{0x01}
	}
	if c.CompassAddr == "" {
		c.CompassAddr = "0x00000000000000000000000000000000000000C0"
	}
	if c.UniqueID == nil {
		c.UniqueID = []byte("compass-" + c.RefID)
	}
	if c.FeeManager == "" {
		c.FeeManager = "0x00000000000000000000000000000000000000FE"
	}
	return fa.WithDeliverCtx(func(ctx sdk.Context) error {
		a := fa.App()
		if err := a.EvmKeeper.AddSupportForNewChain(ctx, c.RefID, c.ChainID, c.BlockHeight, c.BlockHash, c.MinBalance); err != nil {
			return err
		}
		if err := a.EvmKeeper.SetFeeManagerAddress(ctx, c.RefID, c.FeeManager); err != nil {
			return err
		}
		if !c.SkipValidators {
			if err := fa.registerValidatorsOnChain(ctx, c.RefID, c.FeeMultiplicator); err != nil {
				return err
			}
		}
		if !c.Inactive {
			sc, err := a.EvmKeeper.SaveNewSmartContract(ctx, c.ABI, c.Bytecode)
			if err != nil {
				return err
			}
			if err := a.EvmKeeper.ActivateChainReferenceID(ctx, c.RefID, sc, c.CompassAddr, c.UniqueID); err != nil {
				return err
			}
			// chain already runs sc, so this only records sc as "last compass".
			if err := a.EvmKeeper.SetAsCompassContract(ctx, sc); err != nil {
				return err
			}
		}
		if !c.SkipValidators {
			a.MetrixKeeper.UpdateUptime(ctx)
		}
		if !c.SkipSnapshot {
			if _, err := a.ValsetKeeper.TriggerSnapshotBuild(ctx); err != nil {
				return err
			}
		}
		return nil
	})
}

func (fa *FullApp) registerValidatorsOnChain(ctx sdk.Context, refID, mult string) error {
	if mult == "" {
		mult = "1.1"
	}
	a := fa.App()
	for _, v := range fa.Vals {
		infos, err := a.ValsetKeeper.GetValidatorChainInfos(ctx, v.ValAddr())
		if err != nil {
			return err
		}
		kept := infos[:0:0]
		for _, in := range infos {
			if in.ChainReferenceID != refID {
				kept = append(kept, in)
			}
		}
		// Pubkey is what consensus passes to the queue's signature verifier, which
		// for EVM treats it as the 20-byte eth address (as pigeon registers it).
		kept = append(kept, &valsettypes.ExternalChainInfo{
			ChainType: FAEvmChainType, ChainReferenceID: refID,
			Address: v.EthAddr.Hex(), Pubkey: v.EthAddr.Bytes(),
		})
		if err := a.ValsetKeeper.AddExternalChainInfo(ctx, v.ValAddr(), kept); err != nil {
			return fmt.Errorf("%s: %w", v.Name, err)
		}
		rfs := &treasurytypes.RelayerFeeSetting{ValAddress: v.ValAddr().String()}
		all, err := a.TreasuryKeeper.GetRelayerFees(ctx)
		if err != nil {
			return err
		}
		for _, e := range all {
			if e.ValAddress == rfs.ValAddress {
				for _, f := range e.Fees {
					if f.ChainReferenceId != refID {
						rfs.Fees = append(rfs.Fees, f)
					}
				}
			}
		}
		rfs.Fees = append(rfs.Fees, treasurytypes.RelayerFeeSetting_FeeSetting{
			Multiplicator: sdkmath.LegacyMustNewDecFromStr(mult), ChainReferenceId: refID,
		})
		if err := a.TreasuryKeeper.SetRelayerFee(ctx, v.ValAddr(), rfs); err != nil {
			return err
		}
	}
	return nil
}

// RegisterValidatorsOnChain (re-)registers every validator's eth account and
// relayer fee for refID and refreshes metrix uptime, in its own block.
func (fa *FullApp) RegisterValidatorsOnChain(refID string) (FABlockResult, error) {
	return fa.WithDeliverCtx(func(ctx sdk.Context) error {
		if err := fa.registerValidatorsOnChain(ctx, refID, ""); err != nil {
			return err
		}
		fa.App().MetrixKeeper.UpdateUptime(ctx)
		return nil
	})
}

// TriggerSnapshot runs valset.TriggerSnapshotBuild in its own block; snap is nil
// when the new snapshot was not "worthy" (unchanged validator set).
func (fa *FullApp) TriggerSnapshot() (snap *valsettypes.Snapshot, b FABlockResult, err error) {
	b, err = fa.WithDeliverCtx(func(ctx sdk.Context) error {
		var e error
		snap, e = fa.App().ValsetKeeper.TriggerSnapshotBuild(ctx)
		return e
	})
	return
}

// EthSign signs a consensus-queue message hash the way pigeon does:
// sig = secp256k1(keccak256("\x19Ethereum Signed Message:\n32" || bz)), 65 bytes.
func (fa *FullApp) EthSign(valIdx int, bz []byte) []byte {
	h := ethcrypto.Keccak256(append([]byte(evmkeeper.SignaturePrefix), bz...))
	sig, err := ethcrypto.Sign(h, fa.Vals[valIdx].EthPriv)
	if err != nil {
		panic(err)
	}
	return sig
}

// ---------------------------------------------------------------------------
// smoke test
// ---------------------------------------------------------------------------

type faSmokeOp func(fa *FullApp) string // returns "" or a failure description

func faSmokeOps() []faSmokeOp {
	okTx := func(what string, r FATxResult) string {
		if !r.OK() {
			return fmt.Sprintf("%s failed: code=%d codespace=%s log=%s panicked=%v blockErr=%s", what, r.Code, r.Codespace, r.Log, r.Panicked, r.BlockErr)
		}
		return ""
	}
	okBlock := func(what string, b FABlockResult, err error) string {
		if err != nil || !b.OK() {
			return fmt.Sprintf("%s failed: %v / %v %s", what, err, b.Err, b.Panic)
		}
		return ""
	}
	return []faSmokeOp{
		func(fa *FullApp) string { // bank send
			before := fa.Balance(fa.User(1).Addr, FABondDenom)
			r := fa.DeliverTx(fa.User(0), banktypes.NewMsgSend(fa.User(0).Addr, fa.User(1).Addr, faCoins(12345)))
			if s := okTx("bank send", r); s != "" {
				return s
			}
			if got := fa.Balance(fa.User(1).Addr, FABondDenom).Sub(before); !got.Equal(sdkmath.NewInt(12345)) {
				return "bank send: balance delta " + got.String()
			}
			return ""
		},
		func(fa *FullApp) string { // paloma msg from a validator
			v := fa.ValidatorOperator(0)
			r := fa.DeliverTx(v, &valsettypes.MsgKeepAlive{PigeonVersion: FAPigeonVersion, Metadata: FAMeta(v.Addr, v.Addr)})
			if s := okTx("keepalive", r); s != "" {
				return s
			}
			if alive, err := fa.App().ValsetKeeper.IsValidatorAlive(fa.CtxCached(), v.ValAddr()); err != nil || !alive {
				return fmt.Sprintf("validator 0 not alive: %v", err)
			}
			return ""
		},
		func(fa *FullApp) string { // tokenfactory
			u := fa.User(2)
			r := fa.DeliverTx(u, &tokenfactorytypes.MsgCreateDenom{Subdenom: "smoke", Metadata: FAMeta(u.Addr, u.Addr)})
			return okTx("create denom", r)
		},
		func(fa *FullApp) string { // creator != tx signer, no grant: ante must reject, metadata untouched
			a, b := fa.User(0), fa.User(1)
			r := fa.DeliverTxAs([]*FAAccount{a}, &tokenfactorytypes.MsgCreateDenom{Subdenom: "x", Metadata: FAMeta(b.Addr, a.Addr)})
			if r.Code == 0 {
				return "tx by A with creator=B and no grant was accepted"
			}
			if s := okTx("feegrant", fa.GrantFee(b, a)); s != "" {
				return s
			}
			r = fa.DeliverTxAs([]*FAAccount{a}, &tokenfactorytypes.MsgCreateDenom{Subdenom: "x", Metadata: FAMeta(b.Addr, a.Addr)})
			return okTx("granted create denom", r)
		},
		func(fa *FullApp) string { return okBlock("keepalive all", fa.KeepAliveAll(), nil) },
		func(fa *FullApp) string { return okBlock("120 blocks", fa.AdvanceBlocks(120), nil) },
		func(fa *FullApp) string {
			b, err := fa.ActivateEVMChain(FAEvmChain{RefID: "test-chain"})
			if s := okBlock("activate chain", b, err); s != "" {
				return s
			}
			names := fa.App().EvmKeeper.GetActiveChainNames(fa.CtxCached())
			if len(names) != 1 || names[0] != "test-chain" {
				return fmt.Sprintf("active chains = %v", names)
			}
			snap, err := fa.App().ValsetKeeper.GetCurrentSnapshot(fa.CtxCached())
			if err != nil || snap == nil || len(snap.Validators) != len(fa.Vals) {
				return fmt.Sprintf("snapshot after activation: %v %v", snap, err)
			}
			if _, _, err := fa.App().EvmKeeper.PickValidatorForMessage(fa.CtxCached(), "test-chain", nil); err != nil {
				return "no eligible relayer: " + err.Error()
			}
			return ""
		},
		func(fa *FullApp) string { return okBlock("20 blocks", fa.AdvanceBlocks(20), nil) },
		func(fa *FullApp) string {
			d0 := fa.StoreDigest()
			fa.Restart()
			if diff := FADiffDigests(d0, fa.StoreDigest()); len(diff) > 0 {
				return fmt.Sprintf("store digests changed over restart: %v", diff)
			}
			return okBlock("10 blocks after restart", fa.AdvanceBlocks(10), nil)
		},
	}
}

func TestFullAppSmoke(t *testing.T) {
	opts := FullAppOpts{NumValidators: 4, NumUsers: 3, Seed: 1}
	t0 := time.Now()
	a := NewFullApp(t, opts)
	t.Logf("NewFullApp #1 (incl. block 1): %v", time.Since(t0))
	t0 = time.Now()
	b := NewFullApp(t, opts)
	t.Logf("NewFullApp #2: %v", time.Since(t0))
	for i := 0; i < 4; i++ {
		t.Logf("val%d %s %s eth=%s", i, a.ValidatorOperator(i), a.ValAddr(i), a.ValidatorOperator(i).EthAddr.Hex())
	}

	compare := func(step int) {
		if a.Height() != b.Height() {
			t.Fatalf("step %d: heights differ %d vs %d", step, a.Height(), b.Height())
		}
		for h := int64(1); h <= a.Height(); h++ {
			if !bytes.Equal(a.History[h].AppHash, b.History[h].AppHash) || !bytes.Equal(a.History[h].ResultsHash, b.History[h].ResultsHash) {
				t.Fatalf("step %d: twin divergence at height %d: app %X vs %X", step, h, a.History[h].AppHash, b.History[h].AppHash)
			}
		}
	}
	compare(-1)
	for i, op := range faSmokeOps() {
		t0 = time.Now()
		if s := op(a); s != "" {
			t.Fatalf("op %d on app A: %s", i, s)
		}
		dt := time.Since(t0)
		if s := op(b); s != "" {
			t.Fatalf("op %d on app B: %s", i, s)
		}
		compare(i)
		t.Logf("op %d ok: height=%d apphash=%X (%v per app)", i, a.Height(), a.AppHash()[:6], dt)
	}
	if diff := FADiffDigests(a.StoreDigest(), b.StoreDigest()); len(diff) > 0 {
		t.Fatalf("twin store digests differ: %v", diff)
	}
	// all validators still bonded & unjailed after ~150 blocks
	for i := range a.Vals {
		v, err := a.App().StakingKeeper.GetValidator(a.CtxCached(), a.ValAddr(i))
		if err != nil || v.Jailed || !v.IsBonded() {
			t.Fatalf("validator %d: err=%v jailed=%v status=%v", i, err, v.Jailed, v.Status)
		}
	}
	// a panicking hook is reported, not fatal, and its writes are dropped
	_, err := a.WithDeliverCtx(func(ctx sdk.Context) error { panic("boom") })
	if err == nil {
		t.Fatal("expected hook panic to be reported")
	}
	if !a.NextBlock().OK() {
		t.Fatal("chain should continue after a panicking hook")
	}
	t.Logf("final height %d, %d stores, supply=%s%s", a.Height(), len(a.StoreDigest()), a.Supply(FABondDenom), FABondDenom)
}
