//go:build verif

package harness

// C16, the second road from a contract to the token factory: besides the custom bindings (wMint / wBurn / …, c16_test.go)
// a contract can dispatch the token factory's protobuf messages themselves as CosmosMsg::Any — bare, or inside an
// authz.MsgExec (nested, holding SEVERAL messages).  No ante handler runs for contract messages, wasmd only compares the
// DECLARED signers with the contract, authz runs an inner message whose signer is the grantee without a grant, and the
// token factory acts for metadata.creator: that the creator is the contract is checked by Paloma's wasm message router
// alone.  "Only its current admin can mint it, burn it, change its metadata or hand the admin role to someone else" must
// hold for every such dispatch: messages naming somebody else at EVERY position of a MsgExec, the contract's own messages
// before / after them.
//
// The phase runs at the end of every case, on the state the case's history has built (admins handed over, balances
// spread), through the application's own messenger (app.VerifWasmMessenger: Paloma's router around wasmd's protobuf
// handler and the real msg service router; an account stands for the contract's address).  It draws from a generator of
// its own (seeded from the run's seed and the case number), so the main histories of a seed stay what they were.
//
// Line protocol: `any <contract> <tree>` — see Driver/C16.lean `parseAny?`; answered `ok` / `rej` + the ledger rows.

import (
	"fmt"
	"math/big"
	"math/rand"
	"strconv"
	"strings"

	sdkmath "cosmossdk.io/math"
	wasmvmtypes "github.com/CosmWasm/wasmvm/v2/types"
	sdk "github.com/cosmos/cosmos-sdk/types"
	"github.com/cosmos/cosmos-sdk/x/authz"
	bankkeeper "github.com/cosmos/cosmos-sdk/x/bank/keeper"
	tfkeeper "github.com/palomachain/paloma/v2/x/tokenfactory/keeper"
	tftypes "github.com/palomachain/paloma/v2/x/tokenfactory/types"
	valsettypes "github.com/palomachain/paloma/v2/x/valset/types"
)

type c16AnyUniverse struct {
	factory, subs, other, malformed []string
}

type c16Leaf struct {
	kind  string // create mint burn chadmin setmeta
	sg, c int    // metadata.signers[0], metadata.creator
	sub   string // create
	denom string // the denomination acted on (create: the one it would create)
	amt   *big.Int
	to    int // chadmin: new admin (-1 "", -2 not an address)
	mdOk  bool
	tag   int
}

// c16Node: a token factory message (leaf != nil) or an authz.MsgExec
type c16Node struct {
	leaf    *c16Leaf
	grantee int
	kids    []*c16Node
}

func c16Exec(g int, kids ...*c16Node) *c16Node { return &c16Node{grantee: g, kids: kids} }

func (n *c16Node) leaves() []*c16Leaf {
	if n.leaf != nil {
		return []*c16Leaf{n.leaf}
	}
	var out []*c16Leaf
	for _, k := range n.kids {
		out = append(out, k.leaves()...)
	}
	return out
}

func (n *c16Node) depth() int {
	if n.leaf != nil {
		return 0
	}
	d := 0
	for _, k := range n.kids {
		if x := k.depth(); x > d {
			d = x
		}
	}
	return d + 1
}

func (e *c16Env) anyTokens(n *c16Node, out *[]string) {
	if l := n.leaf; l != nil {
		switch l.kind {
		case "create":
			*out = append(*out, fmt.Sprintf("c,%d,%d,%s", l.sg, l.c, e.enc(l.sub)))
		case "mint":
			*out = append(*out, fmt.Sprintf("m,%d,%d,%s,%s", l.sg, l.c, e.enc(l.denom), l.amt))
		case "burn":
			*out = append(*out, fmt.Sprintf("b,%d,%d,%s,%s", l.sg, l.c, e.enc(l.denom), l.amt))
		case "chadmin":
			_, nal := e.addrArg(l.to)
			*out = append(*out, fmt.Sprintf("a,%d,%d,%s,%s", l.sg, l.c, e.enc(l.denom), nal))
		case "setmeta":
			*out = append(*out, fmt.Sprintf("s,%d,%d,%s,%d,%d", l.sg, l.c, e.enc(l.denom), c16B2i(l.mdOk), l.tag))
		}
		return
	}
	*out = append(*out, fmt.Sprintf("x,%d,%d", n.grantee, len(n.kids)))
	for _, k := range n.kids {
		e.anyTokens(k, out)
	}
}

func (e *c16Env) anyMsg(n *c16Node, mdRng *rand.Rand) sdk.Msg {
	if l := n.leaf; l != nil {
		md := valsettypes.MsgMetadata{Creator: e.A(l.c), Signers: []string{e.A(l.sg)}}
		switch l.kind {
		case "create":
			return &tftypes.MsgCreateDenom{Metadata: md, Subdenom: l.sub}
		case "mint":
			return &tftypes.MsgMint{Metadata: md, Amount: sdk.Coin{Denom: l.denom, Amount: sdkmath.NewIntFromBigInt(l.amt)}}
		case "burn":
			return &tftypes.MsgBurn{Metadata: md, Amount: sdk.Coin{Denom: l.denom, Amount: sdkmath.NewIntFromBigInt(l.amt)}}
		case "chadmin":
			nas, _ := e.addrArg(l.to)
			return &tftypes.MsgChangeAdmin{Metadata: md, Denom: l.denom, NewAdmin: nas}
		default:
			m := e.meta(l.denom, true, l.tag)
			if !l.mdOk {
				switch mdRng.Intn(3) {
				case 0:
					m.Name = "  "
				case 1:
					m.Symbol = ""
				default:
					m.Display = "other"
				}
			}
			return &tftypes.MsgSetDenomMetadata{Metadata: md, DenomMetadata: m}
		}
	}
	var inner []sdk.Msg
	for _, k := range n.kids {
		inner = append(inner, e.anyMsg(k, mdRng))
	}
	ex := authz.NewMsgExec(e.addrs[n.grantee], inner)
	return &ex
}

// anyDispatch hands the message to the application's wasm messenger as the contract `a` would, atomically.
func (e *c16Env) anyDispatch(a int, msg sdk.Msg) string {
	pm, ok := msg.(interface {
		Reset()
		String() string
		ProtoMessage()
	})
	if !ok {
		e.t.Fatalf("not a proto message: %T", msg)
	}
	bz, err := e.fa.App().AppCodec().Marshal(pm)
	if err != nil {
		e.t.Fatalf("marshal %T: %v", msg, err)
	}
	res := e.wasm(func(ctx sdk.Context, _ *tfkeeper.Keeper, _ *bankkeeper.BaseKeeper) error {
		_, _, _, derr := e.fa.App().VerifWasmMessenger().DispatchMsg(ctx, e.addrs[a], "",
			wasmvmtypes.CosmosMsg{Any: &wasmvmtypes.AnyMsg{TypeURL: sdk.MsgTypeURL(msg), Value: bz}})
		return derr
	})
	if res == "blockerr" {
		return res
	}
	if res != "ok" {
		return "rej"
	}
	return res
}

type c16ExpRow struct {
	supply *big.Int
	admin  string
	meta   string
	bals   []*big.Int
}

// monitorsAny evaluates the property on one dispatch of contract `a`.  The ONLY party that authorised anything is the
// contract: whatever the messages declare, a successful dispatch may do exactly what `a` itself is entitled to.
func (e *c16Env) monitorsAny(a int, root *c16Node, res string, pre, post c16Obs) {
	if res != "ok" {
		e.monitors(c16Act{kind: "any", actor: a, signer: a}, res, pre, post) // failed op is a no-op
		return
	}
	me := e.A(a)
	exp := map[string]*c16ExpRow{}
	for _, d := range e.watch {
		p := pre.full[d]
		row := &c16ExpRow{admin: p.admin, meta: p.meta}
		row.supply, _ = new(big.Int).SetString(p.supply, 10)
		for _, b := range p.bals {
			x, _ := new(big.Int).SetString(b, 10)
			row.bals = append(row.bals, x)
		}
		exp[d] = row
	}
	slot := -1
	for i, h := range c16Holders {
		if h == a {
			slot = i
		}
	}
	metaTargets := map[string]bool{}
	for _, l := range root.leaves() {
		what := fmt.Sprintf("%s on %s (declared creator %d, declared signer %d) executed in a dispatch of contract %d", l.kind, e.enc(l.denom), l.c, l.sg, a)
		if l.c != a {
			mon := "only_admin_acts"
			if l.kind == "create" {
				mon = "namespace"
			}
			e.hit(mon, what+": the contract acted in the name of an account that authorised nothing")
		}
		if l.sg != a {
			e.hit("only_admin_acts", what+": the declared signer never signed or dispatched anything")
		}
		row := exp[l.denom]
		switch l.kind {
		case "mint", "burn", "chadmin", "setmeta":
			if e.adm[l.denom] != me {
				e.hit("only_admin_acts", fmt.Sprintf("%s: tracked admin of the denomination is %q, not the contract", what, e.enc(e.adm[l.denom])))
			}
			if !e.exists[l.denom] {
				e.hit("non_factory_untouchable", what+": the factory never created that denomination")
			}
			if _, _, err := tftypes.DeconstructDenom(l.denom); err != nil {
				e.hit("non_factory_untouchable", what+": not a factory denomination")
			}
		}
		switch l.kind {
		case "mint":
			if row != nil {
				row.supply.Add(row.supply, l.amt)
				row.bals[slot].Add(row.bals[slot], l.amt)
			}
			if e.minted[l.denom] == nil {
				e.minted[l.denom] = new(big.Int)
			}
			e.minted[l.denom].Add(e.minted[l.denom], l.amt)
		case "burn":
			if row != nil {
				row.supply.Sub(row.supply, l.amt)
				row.bals[slot].Sub(row.bals[slot], l.amt)
			}
			if e.burned[l.denom] == nil {
				e.burned[l.denom] = new(big.Int)
			}
			e.burned[l.denom].Add(e.burned[l.denom], l.amt)
		case "chadmin":
			if l.to >= 0 {
				e.adm[l.denom] = e.A(l.to)
				if row != nil {
					row.admin = strconv.Itoa(l.to)
				}
			} else {
				e.adm[l.denom] = ""
				if row != nil {
					row.admin = "-"
				}
			}
		case "setmeta":
			metaTargets[l.denom] = true
			if row != nil {
				row.meta = strconv.Itoa(l.tag)
			}
		case "create":
			metaTargets[l.denom] = true
			if row == nil || e.exists[l.denom] || row.meta != "-" {
				e.hit("no_recreate", "created again: "+e.enc(l.denom))
			}
			if !strings.HasPrefix(l.denom, "factory/"+me+"/") {
				e.hit("namespace", "created outside the contract's namespace: "+e.enc(l.denom))
			}
			if row != nil {
				if row.supply.Sign() != 0 {
					e.hit("supply_eq_mints_minus_burns", "created denom had supply before creation: "+e.enc(l.denom))
				}
				row.meta, row.admin = "0", strconv.Itoa(l.c)
			}
			e.exists[l.denom], e.createdCase[l.denom], e.adm[l.denom] = true, true, e.A(l.c)
		}
	}
	for _, x := range c16MetaDiff(pre, post) {
		if !metaTargets[x] {
			e.hit("only_admin_acts", fmt.Sprintf("dispatch of contract %d wrote the bank metadata of %s, which none of its messages addresses", a, e.enc(x)))
		}
	}
	for _, d := range e.watch {
		w, q := exp[d], post.full[d]
		if pre.full[d].meta != "-" && q.meta == "-" {
			e.hit("no_recreate", "existence reverted: "+e.enc(d))
		}
		if w.supply.String() != q.supply {
			e.hit("supply_eq_mints_minus_burns", fmt.Sprintf("dispatch of contract %d: supply of %s is %s, expected %s", a, e.enc(d), q.supply, w.supply))
		}
		if w.admin != q.admin {
			e.hit("only_admin_acts", fmt.Sprintf("dispatch of contract %d: admin of %s is %s, expected %s", a, e.enc(d), q.admin, w.admin))
		}
		if w.meta != q.meta {
			e.hit("only_admin_acts", fmt.Sprintf("dispatch of contract %d: metadata of %s is %s, expected %s", a, e.enc(d), q.meta, w.meta))
		}
		for i, h := range c16Holders {
			if w.bals[i].String() != q.bals[i] {
				// minting and burning only ever touch the balance of the admin who acts: here, the contract
				e.hit("mint_burn_touch_only_admin", fmt.Sprintf("dispatch of contract %d: balance of %d in %s went %s -> %s, expected %s", a, h, e.enc(d), pre.full[d].bals[i], q.bals[i], w.bals[i]))
			}
		}
	}
	for _, d := range e.light { // the creation fee is the contract's own
		for h := 0; h < 6; h++ {
			if h != a && pre.light[d][h] != post.light[d][h] {
				e.hit("frame", fmt.Sprintf("dispatch of contract %d changed the %s balance of %d: %s -> %s", a, d, h, pre.light[d][h], post.light[d][h]))
			}
		}
	}
	e.ledgerCheck(post)
}

// anyPhase: a few dispatches on the state the case's history has left.
func (e *c16Env) anyPhase(cs int, u c16AnyUniverse, post c16Obs) {
	r := e.r
	rng := rand.New(rand.NewSource(r.Seed*1_000_003 + int64(cs)*7919 + 17))
	bal := func(o c16Obs, h int, d string) *big.Int {
		if row, ok := o.full[d]; ok {
			for i, hh := range c16Holders {
				if hh == h {
					b, _ := new(big.Int).SetString(row.bals[i], 10)
					return b
				}
			}
		}
		return bi(0)
	}
	small := func(max *big.Int) *big.Int {
		if max.Sign() > 0 && max.IsInt64() {
			return bi(1 + rng.Int63n(max.Int64()))
		}
		if max.Sign() > 0 {
			return new(big.Int).Rsh(max, 1)
		}
		return bi(int64(1 + rng.Intn(1000)))
	}
	anyDenom := func() string {
		switch x := rng.Intn(20); {
		case x < 15:
			return u.factory[rng.Intn(len(u.factory))]
		case x < 18:
			return u.other[rng.Intn(len(u.other))]
		case x < 19:
			return FABondDenom
		}
		if d := u.malformed[rng.Intn(len(u.malformed))]; c16JSONSafe(d) {
			return d
		}
		return ""
	}
	nAny := 3 + rng.Intn(4)
	for i := 0; i < nAny; i++ {
		pre := post
		// denominations with a tracked admin in the table of users / contracts, and those a given account administers
		var admined []string
		for _, d := range u.factory {
			if x, ok := e.adm[d]; ok && x != "" && e.idx[x] < 6 {
				admined = append(admined, d)
			}
		}
		ownOf := func(a int) []string {
			var out []string
			for _, d := range u.factory {
				if e.adm[d] == e.A(a) {
					out = append(out, d)
				}
			}
			return out
		}
		// a message of the contract's own that should pass on the present state
		usedSubs := map[string]bool{} // names this dispatch creates already
		ownLeaves := func(a int) []*c16Node {
			mine := ownOf(a)
			if len(mine) > 0 && rng.Intn(5) != 0 {
				d := mine[rng.Intn(len(mine))]
				switch rng.Intn(5) {
				case 0:
					return []*c16Node{{leaf: &c16Leaf{kind: "setmeta", sg: a, c: a, denom: d, mdOk: true, tag: 1 + rng.Intn(90)}}}
				case 1:
					return []*c16Node{{leaf: &c16Leaf{kind: "chadmin", sg: a, c: a, denom: d, to: a}}}
				case 2:
					if b := bal(pre, a, d); b.Sign() > 0 {
						return []*c16Node{{leaf: &c16Leaf{kind: "burn", sg: a, c: a, denom: d, amt: small(b)}}}
					}
				}
				return []*c16Node{{leaf: &c16Leaf{kind: "mint", sg: a, c: a, denom: d, amt: bi(int64(1 + rng.Intn(100)))}}}
			}
			// create in the contract's own namespace (a watched name that does not exist yet), mostly followed by a first mint
			var free []string
			for _, s := range u.subs {
				d := "factory/" + e.A(a) + "/" + s
				if _, watched := pre.full[d]; watched && !e.exists[d] && s != "" && !usedSubs[d] {
					free = append(free, s)
				}
			}
			if len(free) == 0 {
				d := u.factory[rng.Intn(len(u.factory))]
				return []*c16Node{{leaf: &c16Leaf{kind: "mint", sg: a, c: a, denom: d, amt: bi(1)}}}
			}
			s := free[rng.Intn(len(free))]
			d := "factory/" + e.A(a) + "/" + s
			usedSubs[d] = true
			out := []*c16Node{{leaf: &c16Leaf{kind: "create", sg: a, c: a, sub: s, denom: d}}}
			if rng.Intn(3) != 0 {
				out = append(out, &c16Node{leaf: &c16Leaf{kind: "mint", sg: a, c: a, denom: d, amt: bi(int64(1 + rng.Intn(100)))}})
			}
			return out
		}
		randLeaf := func(a int) *c16Node {
			c := a
			if rng.Intn(5) < 2 {
				c = rng.Intn(6)
			}
			sg := a
			if rng.Intn(7) == 0 {
				sg = rng.Intn(6)
			}
			d := anyDenom()
			if len(admined) > 0 && rng.Intn(2) == 0 {
				d = admined[rng.Intn(len(admined))]
				if rng.Intn(3) != 0 {
					c = e.idx[e.adm[d]]
				}
			}
			l := &c16Leaf{sg: sg, c: c, denom: d}
			switch rng.Intn(5) {
			case 0:
				l.kind, l.sub = "create", u.subs[rng.Intn(len(u.subs))]
				if rng.Intn(6) == 0 {
					l.sub = []string{"ugrain", c16Native, strings.Repeat("t", 45), "a b"}[rng.Intn(4)]
				} else if c >= 4 {
					l.sub = u.subs[c-4] // the one name of a contract stand-in's namespace that is watched
				}
				l.denom = "factory/" + e.A(c) + "/" + l.sub
			case 1:
				l.kind = "mint"
				l.amt = []*big.Int{bi(0), bi(-3), bi(1), bi(int64(1 + rng.Intn(1000))), bi(int64(1 + rng.Intn(1000))), new(big.Int).Sub(pow2(256), bi(1))}[rng.Intn(6)]
			case 2:
				l.kind = "burn"
				l.amt = small(bal(pre, c, d))
				if rng.Intn(6) == 0 {
					l.amt = new(big.Int).Add(bal(pre, c, d), bi(1))
				}
			case 3:
				l.kind, l.to = "chadmin", []int{0, 1, 2, 3, 4, 5, a, a, c16ModuleIdx, -1, -2}[rng.Intn(11)]
			default:
				l.kind, l.mdOk, l.tag = "setmeta", rng.Intn(5) != 0, 1+rng.Intn(90)
			}
			return &c16Node{leaf: l}
		}
		var a int
		var root *c16Node
		shape := ""
		switch mode := rng.Intn(10); {
		case mode < 5 && len(admined) > 0:
			// DIRECTED: a message that names the admin X of a live denomination as creator — dispatched by a contract that is
			// not X — at every position among messages of the contract's own, in every nesting
			d := admined[rng.Intn(len(admined))]
			x := e.idx[e.adm[d]]
			a = rng.Intn(6)
			if a == x {
				a = (a + 1 + rng.Intn(5)) % 6
			}
			if rng.Intn(3) != 0 { // prefer a contract that has, or can create, something of its own
				for k := 0; k < 6; k++ {
					if b := (a + k) % 6; b != x && len(ownOf(b)) > 0 {
						a = b
						break
					}
				}
			}
			f := &c16Leaf{sg: a, c: x, denom: d}
			if rng.Intn(10) == 0 {
				f.sg = x
			}
			switch k := rng.Intn(8); {
			case k < 3 && bal(pre, x, d).Sign() > 0:
				f.kind, f.amt = "burn", small(bal(pre, x, d))
			case k < 5:
				f.kind, f.amt = "mint", bi(int64(1+rng.Intn(1000)))
			case k < 7:
				f.kind, f.to = "chadmin", a
			default:
				f.kind, f.mdOk, f.tag = "setmeta", true, 1+rng.Intn(90)
			}
			F := &c16Node{leaf: f}
			own := func() []*c16Node { return ownLeaves(a) }
			cat := func(parts ...[]*c16Node) []*c16Node {
				var out []*c16Node
				for _, p := range parts {
					out = append(out, p...)
				}
				return out
			}
			one := []*c16Node{F}
			switch k := rng.Intn(10); k {
			case 0:
				root, shape = F, "bare-foreign"
			case 1:
				root, shape = c16Exec(a, F), "exec[foreign]"
			case 2:
				root, shape = c16Exec(a, cat(own(), one)...), "exec[own,foreign]"
			case 3, 4:
				root, shape = c16Exec(a, cat(one, own())...), "exec[foreign,own]"
			case 5:
				root, shape = c16Exec(a, cat(own(), one, own())...), "exec[own,foreign,own]"
			case 6:
				root, shape = c16Exec(a, cat([]*c16Node{c16Exec(a, F)}, own())...), "exec[exec[foreign],own]"
			case 7:
				root, shape = c16Exec(a, c16Exec(a, cat(one, own())...)), "exec[exec[foreign,own]]"
			case 8:
				root, shape = c16Exec(a, cat(own(), []*c16Node{c16Exec(a, cat(one, own())...)}, own())...), "exec[own,exec[foreign,own],own]"
			default:
				root, shape = c16Exec(a, cat(one, []*c16Node{c16Exec(a, own()...)})...), "exec[foreign,exec[own]]"
			}
		case mode < 7:
			// the contract's own messages only, in one MsgExec (also: create followed by the first mint of the new denomination)
			a = rng.Intn(6)
			var kids []*c16Node
			for k, n := 0, 1+rng.Intn(3); k < n; k++ {
				kids = append(kids, ownLeaves(a)...)
			}
			switch rng.Intn(4) {
			case 0:
				root, shape = kids[0], "bare-own"
			case 1:
				root, shape = c16Exec(a, c16Exec(a, kids...)), "exec[exec[own..]]"
			default:
				root, shape = c16Exec(a, kids...), "exec[own..]"
			}
		default:
			// random trees: any creator / signer / grantee at any position, empty MsgExec, malformed and foreign denominations
			a = rng.Intn(6)
			var gen func(depth int) *c16Node
			gen = func(depth int) *c16Node {
				if depth >= 3 || rng.Intn(3) != 0 {
					if rng.Intn(3) == 0 {
						return ownLeaves(a)[0]
					}
					return randLeaf(a)
				}
				g := a
				if rng.Intn(10) == 0 {
					g = rng.Intn(6)
				}
				n := &c16Node{grantee: g}
				for k, cnt := 0, []int{0, 1, 2, 2, 3, 4}[rng.Intn(6)]; k < cnt; k++ {
					n.kids = append(n.kids, gen(depth+1))
				}
				return n
			}
			if rng.Intn(4) == 0 {
				root = randLeaf(a)
			} else {
				root = &c16Node{grantee: a}
				for k, cnt := 0, 1+rng.Intn(4); k < cnt; k++ {
					root.kids = append(root.kids, gen(1))
				}
			}
			shape = "random"
		}
		// further MsgExec layers around it, up to and beyond the depth to which the router unfolds them (6)
		for k, extra := 0, []int{0, 0, 0, 0, 0, 0, 0, 1, 1, 2, 3, 4, 5, 6}[rng.Intn(14)]; k < extra; k++ {
			root = c16Exec(a, root)
		}
		var toks []string
		e.anyTokens(root, &toks)
		line := fmt.Sprintf("any %d %s", a, strings.Join(toks, ";"))
		res := e.anyDispatch(a, e.anyMsg(root, rng))
		if res == "blockerr" {
			e.t.Fatalf("block failed on %q (history %v)", line, e.hist)
		}
		e.hist = append(e.hist, line)
		post = e.observe()
		r.Op(line, res+" "+e.show(post))
		r.Stat("op:any")
		r.Stat("res:any:" + res)
		r.Stat("any:" + shape + ":" + res)
		r.Stat(fmt.Sprintf("any:depth.%d", root.depth()))
		if n := len(root.leaves()); n >= 2 {
			r.Stat("any:leaves>=2:" + res)
		}
		e.monitorsAny(a, root, res, pre, post)
	}
}
