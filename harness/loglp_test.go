//go:build verif

package harness

import (
	"context"

	"cosmossdk.io/log"
)

type nopLP struct{}

func (nopLP) Logger(context.Context) log.Logger { return log.NewNopLogger() }
